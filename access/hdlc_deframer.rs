// Verification accessors for src/hdlc_deframer.rs (child module; cfg(rustradio_verif)).
use super::*;

pub fn calc_crc(d: &[u8]) -> u16 {
    super::calc_crc(d)
}
pub fn bits2byte(d: &[u8]) -> u8 {
    super::bits2byte(d)
}
pub fn find_right_crc(data: &[u8], got: u16, fix: bool) -> (Option<Vec<u8>>, u16, bool) {
    super::find_right_crc(data, got, fix)
}

pub const M_UNSYNCED: u8 = 0;
pub const M_SYNCED: u8 = 1;
pub const M_FINAL: u8 = 2;

/// Put the deframer into an arbitrary state.
pub fn set_state(d: &mut HdlcDeframer, mode: u8, small: u8, bits: Vec<u8>) {
    let old = std::mem::replace(
        &mut d.state,
        match mode {
            M_UNSYNCED => State::Unsynced(small),
            M_SYNCED => State::Synced((small, bits)),
            _ => State::FinalCheck(bits),
        },
    );
    std::mem::forget(old);
}

/// (mode, small value, number of collected bits)
pub fn state(d: &HdlcDeframer) -> (u8, u8, usize) {
    match &d.state {
        State::Unsynced(v) => (M_UNSYNCED, *v, 0),
        State::Synced((o, b)) => (M_SYNCED, *o, b.len()),
        State::FinalCheck(b) => (M_FINAL, 0, b.len()),
    }
}
/// i-th collected bit.
pub fn state_bit(d: &HdlcDeframer, i: usize) -> u8 {
    match &d.state {
        State::Unsynced(_) => 0,
        State::Synced((_, b)) => b[i],
        State::FinalCheck(b) => b[i],
    }
}
pub fn counters(d: &HdlcDeframer) -> (usize, usize, usize) {
    (d.decoded, d.crc_error, d.bitfixed)
}

/// One real state-machine step (what work() does per input bit).
pub fn step(d: &mut HdlcDeframer, bit: u8) -> bool {
    match d.update_state(bit, d.stream_pos) {
        Ok(s) => {
            let old = std::mem::replace(&mut d.state, s);
            std::mem::forget(old);
            d.stream_pos += 1;
            true
        }
        Err(e) => {
            std::mem::forget(e);
            false
        }
    }
}
