// Verification accessors for src/hdlc_deframer.rs (child module of it; included under cfg(rustradio_verif)).
