// Verification accessors for src/symbol_sync.rs (child module of it; included under cfg(rustradio_verif)).
