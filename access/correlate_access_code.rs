// Verification accessors for src/correlate_access_code.rs (child module of it; included under cfg(rustradio_verif)).
