// Verification accessors for src/lib.rs (child module of it; included under cfg(rustradio_verif)).
