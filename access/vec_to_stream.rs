// Verification accessors for src/vec_to_stream.rs (child module of it; included under cfg(rustradio_verif)).
