// Verification accessors for src/au.rs (child module; cfg(rustradio_verif)).
use super::*;

/// An AuDecode that has already accepted its header (state = Data).
pub fn decoder_in_data_state(src: ReadStream<u8>, bitrate: u32) -> (AuDecode, ReadStream<Float>) {
    let (mut d, r) = AuDecode::new(src, bitrate);
    d.state = DecodeState::Data;
    (d, r)
}
