// Verification accessors for src/au.rs (child module of it; included under cfg(rustradio_verif)).
