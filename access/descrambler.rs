// Verification accessors for src/descrambler.rs (child module of it; included under cfg(rustradio_verif)).
