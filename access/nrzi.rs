// Verification accessors for src/nrzi.rs (child module of it; included under cfg(rustradio_verif)).
