// Verification accessors for src/vector_source.rs (child module of it; included under cfg(rustradio_verif)).
