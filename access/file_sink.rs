// Verification accessors for src/file_sink.rs (child module of it; included under cfg(rustradio_verif)).
