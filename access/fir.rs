// Verification accessors for src/fir.rs (child module of it; included under cfg(rustradio_verif)).
