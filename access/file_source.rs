// Verification accessors for src/file_source.rs (child module of it; included under cfg(rustradio_verif)).
