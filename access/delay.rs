// Verification accessors for src/delay.rs (child module of it; included under cfg(rustradio_verif)).
