// Verification accessors for src/zero_crossing.rs (child module of it; included under cfg(rustradio_verif)).
