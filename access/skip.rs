// Verification accessors for src/skip.rs (child module of it; included under cfg(rustradio_verif)).
