// Verification accessors for src/wpcr.rs (child module of it; included under cfg(rustradio_verif)).
