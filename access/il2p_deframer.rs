// Verification accessors for src/il2p_deframer.rs (child module of it; included under cfg(rustradio_verif)).
