// Verification accessors for src/vector_sink.rs (child module of it; included under cfg(rustradio_verif)).
