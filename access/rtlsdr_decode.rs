// Verification accessors for src/rtlsdr_decode.rs (child module of it; included under cfg(rustradio_verif)).
