// Verification accessors for src/fft_filter.rs (child module; cfg(rustradio_verif)).
pub fn calc_fft_size(from: usize) -> usize {
    super::calc_fft_size(from)
}
