// Verification accessors for src/fft_filter.rs (child module of it; included under cfg(rustradio_verif)).
