// Verification accessors for src/signal_source.rs (child module of it; included under cfg(rustradio_verif)).
