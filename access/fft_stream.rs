// Verification accessors for src/fft_stream.rs (child module of it; included under cfg(rustradio_verif)).
