// Verification accessors for src/fft_stream.rs (child module; cfg(rustradio_verif)).
use super::*;

/// An FftStream around a caller-supplied transform (the planner and the butterflies of
/// rustfft are outside bounded reach; the block's framing logic is not).
pub fn with_engine(
    src: ReadStream<Complex>,
    size: usize,
    fft: std::sync::Arc<dyn rustfft::Fft<Float>>,
) -> (FftStream, ReadStream<Complex>) {
    let (dst, dr) = crate::stream::new_stream();
    (
        FftStream {
            size,
            fft,
            src,
            dst,
            threaded: false,
        },
        dr,
    )
}
