// Verification accessors for src/tcp_source.rs (child module; cfg(rustradio_verif)).
use super::*;

/// A TcpSource around an already "connected" stream (no connect syscall).
pub fn with_stream<T: Copy + Default>(stream: std::net::TcpStream) -> (TcpSource<T>, ReadStream<T>) {
    let (dst, dr) = crate::stream::new_stream();
    (
        TcpSource {
            stream,
            buf: Vec::new(),
            dst,
        },
        dr,
    )
}

/// Bytes of an incomplete sample currently held back.
pub fn pending<T: Copy>(s: &TcpSource<T>) -> usize {
    s.buf.len()
}
