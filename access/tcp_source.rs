// Verification accessors for src/tcp_source.rs (child module of it; included under cfg(rustradio_verif)).
