// Verification accessors for src/rational_resampler.rs (child module of it; included under cfg(rustradio_verif)).
