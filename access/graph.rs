// Verification accessors for src/graph.rs (child module of it; included under cfg(rustradio_verif)).
