// Verification accessors for src/stream.rs (child module; cfg(rustradio_verif)).
use super::*;

impl<T: Copy> ReadStream<T> {
    /// The underlying ring.
    pub fn verif_ring(&self) -> &circular_buffer::Buffer<T> {
        &self.circ
    }
    /// Number of handles on the ring (stream ends + live windows).
    pub fn verif_refcount(&self) -> usize {
        Arc::strong_count(&self.circ)
    }
}
impl<T: Copy> WriteStream<T> {
    pub fn verif_ring(&self) -> &circular_buffer::Buffer<T> {
        &self.circ
    }
    pub fn verif_refcount(&self) -> usize {
        Arc::strong_count(&self.circ)
    }
}

/// A sample stream of `samples` capacity, independent of the global override.
pub fn new_stream_sized<T>(samples: usize) -> (WriteStream<T>, ReadStream<T>) {
    let circ = Arc::new(
        match circular_buffer::Buffer::new(samples * std::mem::size_of::<T>()) {
            Ok(b) => b,
            Err(e) => {
                std::mem::forget(e);
                panic!("verif: Buffer::new failed");
            }
        },
    );
    (WriteStream { circ: circ.clone() }, ReadStream { circ })
}

impl<T> NCReadStream<T> {
    /// Number of queued packets (no scheduling point).
    pub fn verif_len(&self) -> usize {
        // SAFETY: cooperative single thread, no guard held by caller.
        unsafe { self.q.0.peek() }.len()
    }
    pub fn verif_refcount(&self) -> usize {
        Arc::strong_count(&self.q)
    }
}
impl<T> NCWriteStream<T> {
    pub fn verif_len(&self) -> usize {
        // SAFETY: cooperative single thread, no guard held by caller.
        unsafe { self.q.0.peek() }.len()
    }
    pub fn verif_refcount(&self) -> usize {
        Arc::strong_count(&self.q)
    }
}

impl<T> NCReadStream<T> {
    pub fn verif_locked(&self) -> bool {
        self.q.0.is_locked()
    }
}
impl<T> NCWriteStream<T> {
    pub fn verif_locked(&self) -> bool {
        self.q.0.is_locked()
    }
}
