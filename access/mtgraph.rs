// Verification accessors for src/mtgraph.rs (child module of it; included under cfg(rustradio_verif)).
