// Verification accessors for src/circular_buffer.rs (child module of it; included
// under cfg(rustradio_verif)).  Only reads/writes private state; no ring logic here.
use super::*;

/// (rpos, wpos, used, capacity-in-samples) of the real state.
pub fn state<T>(b: &Buffer<T>) -> (usize, usize, usize, usize) {
    // SAFETY: cooperative single thread, no guard held by the caller.
    let s = unsafe { b.state.0.peek() };
    (s.rpos, s.wpos, s.used, s.circ_len / s.member_size)
}

/// Put the ring into an arbitrary position state (tags untouched).
pub fn set_state<T>(b: &Buffer<T>, rpos: usize, wpos: usize, used: usize) {
    // SAFETY: see `state`.
    let s = unsafe { b.state.0.peek() };
    s.rpos = rpos;
    s.wpos = wpos;
    s.used = used;
}

/// Store sample `v` at absolute ring index `idx` (< capacity) in *both* aliases.
pub fn poke<T: Copy>(b: &Buffer<T>, idx: usize, v: T) {
    let cap = b.circ.len / 2 / std::mem::size_of::<T>();
    assert!(idx < cap);
    // SAFETY: idx and idx+cap are inside the 2*cap element allocation.
    unsafe {
        let p = b.circ.map.base as *mut T;
        *p.add(idx) = v;
        *p.add(idx + cap) = v;
    }
}

/// Sample at doubled-buffer index `idx` (< 2*capacity), raw.
pub fn peek_raw<T: Copy>(b: &Buffer<T>, idx: usize) -> T {
    let cap2 = b.circ.len / std::mem::size_of::<T>();
    assert!(idx < cap2);
    // SAFETY: inside the allocation.
    unsafe { *(b.circ.map.base as *const T).add(idx) }
}

/// Insert a tag directly at absolute ring position `pos` (appended to that position's list).
pub fn push_tag<T>(b: &Buffer<T>, pos: usize, key: &str, val: crate::stream::TagValue) {
    // SAFETY: see `state`.
    let s = unsafe { b.state.0.peek() };
    s.tags
        .entry(pos)
        .or_default()
        .push(Tag::new(pos, key, val));
}

/// Number of stored tags (all positions).
pub fn tag_count<T>(b: &Buffer<T>) -> usize {
    // SAFETY: see `state`.
    let s = unsafe { b.state.0.peek() };
    let mut n = 0;
    for (_, ts) in &s.tags {
        n += ts.len();
    }
    n
}

/// i-th stored tag in (position, commit) order: (map key, stored pos, tag).
pub fn tag_at<T>(b: &Buffer<T>, i: usize) -> Option<(usize, Tag)> {
    // SAFETY: see `state`.
    let s = unsafe { b.state.0.peek() };
    let mut n = 0;
    for (k, ts) in &s.tags {
        for t in ts {
            if n == i {
                return Some((*k, t.clone()));
            }
            n += 1;
        }
    }
    None
}

/// Number of distinct map keys (a key with an empty list counts).
pub fn tag_keys<T>(b: &Buffer<T>) -> usize {
    // SAFETY: see `state`.
    let s = unsafe { b.state.0.peek() };
    s.tags.len()
}

pub fn reader_bounds<T: Copy>(r: &BufferReader<T>) -> (usize, usize) {
    (r.start, r.end)
}
pub fn writer_bounds<T: Copy>(w: &BufferWriter<T>) -> (usize, usize) {
    (w.start, w.end)
}

/// Direct calls of the two module-private operations.
pub fn consume<T: Copy>(b: &Buffer<T>, n: usize) {
    b.consume(n)
}
pub fn produce<T: Copy>(b: &Buffer<T>, n: usize, tags: &[Tag]) {
    b.produce(n, tags)
}

/// Whether the state mutex is currently held.
pub fn is_locked<T>(b: &Buffer<T>) -> bool {
    b.state.0.is_locked()
}

/// Store sample `v` at doubled-buffer index `idx` (< 2*capacity) only (no alias write):
/// what a writer does through its window before committing.
pub fn poke_one<T: Copy>(b: &Buffer<T>, idx: usize, v: T) {
    let cap2 = b.circ.len / std::mem::size_of::<T>();
    assert!(idx < cap2);
    // SAFETY: inside the allocation.
    unsafe { *(b.circ.map.base as *mut T).add(idx) = v };
}
