// Verification accessors for src/single_pole_iir_filter.rs (child module of it; included under cfg(rustradio_verif)).
