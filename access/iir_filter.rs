// Verification accessors for src/iir_filter.rs (child module of it; included under cfg(rustradio_verif)).
