// Verification accessors for src/stream_to_pdu.rs (child module of it; included under cfg(rustradio_verif)).
