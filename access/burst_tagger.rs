// Verification accessors for src/burst_tagger.rs (child module of it; included under cfg(rustradio_verif)).
