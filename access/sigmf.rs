// Verification accessors for src/sigmf.rs (child module of it; included under cfg(rustradio_verif)).
