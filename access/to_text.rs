// Verification accessors for src/to_text.rs (child module of it; included under cfg(rustradio_verif)).
