//! C01 / C02 / C03: the real ring (`rustradio::circular_buffer`) against a FIFO
//! specification held in harness locals.
//!
//! All sizes (capacity, positions, op sizes, tag positions) are concrete arguments of
//! the harness functions; sample bytes and tag values are symbolic.
use crate::sym::{Bits, SymVal, any};
use crate::{witness};
use rustradio::circular_buffer::verif_access as acc;
use rustradio::circular_buffer::Buffer;
use rustradio::stream::{Tag, TagValue};
use std::sync::Arc;

/// A tag as the specification sees it.
#[derive(Clone, Copy)]
pub struct STag {
    /// Offset of the tagged sample in the FIFO of buffered samples.
    pub off: usize,
    /// false = key "a", true = key "b".
    pub key: bool,
    /// false = Bool(val&1), true = U64(val).
    pub kind: bool,
    pub val: u64,
}

impl STag {
    pub fn sym(off: usize) -> Self {
        Self {
            off,
            key: any(),
            kind: any(),
            val: any(),
        }
    }
    pub fn key_str(&self) -> &'static str {
        if self.key { "b" } else { "a" }
    }
    pub fn value(&self) -> TagValue {
        if self.kind {
            TagValue::U64(self.val)
        } else {
            TagValue::Bool(self.val & 1 == 1)
        }
    }
    pub fn to_tag(&self, pos: usize) -> Tag {
        Tag::new(pos, self.key_str(), self.value())
    }
    /// Field-wise comparison (avoids the memcmp loops of derived `PartialEq`).
    pub fn matches(&self, t: &Tag, pos: usize) -> bool {
        if t.pos() != pos {
            return false;
        }
        let k = t.key().as_bytes();
        if k.len() != 1 || k[0] != if self.key { b'b' } else { b'a' } {
            return false;
        }
        match (t.val(), self.kind) {
            (TagValue::U64(v), true) => *v == self.val,
            (TagValue::Bool(b), false) => *b == (self.val & 1 == 1),
            _ => false,
        }
    }
}

/// FIFO specification of a stream: what C01/C02 say the reader must see.
pub struct Spec<T> {
    pub cap: usize,
    pub fifo: Vec<T>,
    /// Commit order.
    pub tags: Vec<STag>,
}

pub const SPEC_MAX: usize = 8;

impl<T: Copy> Spec<T> {
    pub fn new(cap: usize) -> Self {
        // Allocated once; all later updates are in place (no reallocation, no drops).
        Self {
            cap,
            fifo: Vec::with_capacity(SPEC_MAX),
            tags: Vec::with_capacity(SPEC_MAX),
        }
    }
    pub fn free(&self) -> usize {
        self.cap - self.fifo.len()
    }
    pub fn commit(&mut self, data: &[T], tags: &[STag]) {
        let base = self.fifo.len();
        assert!(base + data.len() <= SPEC_MAX && self.tags.len() + tags.len() <= SPEC_MAX);
        for d in data {
            self.fifo.push(*d);
        }
        for t in tags {
            let mut t = *t;
            t.off += base;
            self.tags.push(t);
        }
    }
    pub fn consume(&mut self, m: usize) {
        let len = self.fifo.len();
        assert!(m <= len);
        for i in 0..(len - m) {
            self.fifo[i] = self.fifo[i + m];
        }
        self.fifo.truncate(len - m);
        let tl = self.tags.len();
        let mut k = 0;
        for i in 0..tl {
            let t = self.tags[i];
            if t.off >= m {
                let mut t = t;
                t.off -= m;
                self.tags[k] = t;
                k += 1;
            }
        }
        self.tags.truncate(k);
    }
    /// Expected tag vector of a read window: by position, then commit order.
    pub fn expected_tags(&self) -> Vec<STag> {
        let mut v = Vec::with_capacity(SPEC_MAX);
        for pos in 0..self.fifo.len() {
            for t in self.tags.iter() {
                if t.off == pos {
                    v.push(*t);
                }
            }
        }
        v
    }
}

/// Compare everything a reader/writer can observe with the specification, and the
/// representation invariant of the real state.
pub fn observe<T: Copy + Bits>(b: &Arc<Buffer<T>>, spec: &Spec<T>) {
    // Representation invariant.
    let (rpos, wpos, used, cap) = acc::state(b);
    assert!(cap == spec.cap, "capacity changed");
    assert!(rpos < cap, "rpos out of range");
    assert!(used <= cap, "used > capacity");
    assert!(wpos == (rpos + used) % cap, "wpos != (rpos+used) mod cap");
    assert!(used == spec.fifo.len(), "buffered count differs from spec");
    assert!(!acc::is_locked(b), "state mutex left locked");
    // readable + writable == capacity.
    assert!(b.free() == spec.free(), "free() differs from spec");
    assert!(b.total_size() == spec.cap, "total_size() differs from spec");
    let w = match b.clone().write_buf() {
        Ok(w) => w,
        Err(e) => {
            std::mem::forget(e);
            panic!("write_buf failed");
        }
    };
    assert!(w.len() == spec.free(), "write window length differs from spec");
    let (ws, we) = acc::writer_bounds(&w);
    drop(w);
    let (r, tags) = match b.clone().read_buf() {
        Ok(x) => x,
        Err(e) => {
            std::mem::forget(e);
            panic!("read_buf failed");
        }
    };
    assert!(r.len() == spec.fifo.len(), "read window length differs from spec");
    assert!(r.len() + spec.free() == spec.cap, "readable + writable != capacity");
    assert!(r.is_empty() == spec.fifo.is_empty());
    let (rs, re) = acc::reader_bounds(&r);
    // Windows are disjoint modulo capacity and inside the doubled buffer.
    assert!(re <= 2 * cap && we <= 2 * cap, "window beyond the doubled buffer");
    assert!((re - rs) + (we - ws) <= cap, "windows overlap");
    assert!(ws % cap == (rs + (re - rs)) % cap, "write window does not start at end of read window");
    {
        let s = r.slice();
        for i in 0..spec.fifo.len() {
            assert!(s[i].exact_eq(&spec.fifo[i]), "read window sample differs from committed sample");
            // Both aliases agree on every buffered sample.
            let a = (rs + i) % cap;
            assert!(acc::peek_raw(b, a).exact_eq(&spec.fifo[i]), "alias (low) differs");
            assert!(acc::peek_raw(b, a + cap).exact_eq(&spec.fifo[i]), "alias (high) differs");
        }
    }
    let exp = spec.expected_tags();
    assert!(tags.len() == exp.len(), "number of tags reported differs from spec");
    for i in 0..exp.len() {
        assert!(exp[i].matches(&tags[i], exp[i].off), "reported tag differs from spec (pos/key/value/order)");
    }
    assert!(acc::tag_count(b) == spec.tags.len(), "stored tag count differs from spec");
    // Representation invariant of the tag store: keyed by the absolute ring position of a
    // buffered sample, stored position == key.
    for i in 0..spec.tags.len() {
        match acc::tag_at(b, i) {
            Some((k, t)) => {
                assert!(k < cap, "stored tag key is not a ring position (>= capacity)");
                assert!(t.pos() == k, "stored tag position differs from its key");
                assert!((k + cap - rpos) % cap < used, "a tag is stored for a sample that is not buffered");
                std::mem::forget(t);
            }
            None => panic!("stored tag count inconsistent"),
        }
    }
    drop(r);
    std::mem::forget(tags);
    std::mem::forget(exp);
}

fn new_ring<T>(cap: usize) -> Arc<Buffer<T>> {
    match Buffer::<T>::new(cap * std::mem::size_of::<T>()) {
        Ok(b) => Arc::new(b),
        Err(e) => {
            std::mem::forget(e);
            panic!("Buffer::new failed");
        }
    }
}

/// Build a pre-state directly (no history): `used` symbolic samples starting at `rpos`,
/// tags on the buffered samples at the given FIFO offsets.
pub fn pre_state<T: Copy + Bits + SymVal>(
    cap: usize,
    rpos: usize,
    used: usize,
    pre_tags: &[usize],
) -> (Arc<Buffer<T>>, Spec<T>) {
    let b = new_ring::<T>(cap);
    let mut spec = Spec::new(cap);
    acc::set_state(&b, rpos, (rpos + used) % cap, used);
    for i in 0..used {
        let v: T = any();
        acc::poke(&b, (rpos + i) % cap, v);
        spec.fifo.push(v);
    }
    for off in pre_tags {
        let t = STag::sym(*off);
        let pos = (rpos + *off) % cap;
        acc::push_tag(&b, pos, t.key_str(), t.value());
        spec.tags.push(t);
    }
    (b, spec)
}

pub const OP_PRODUCE: u8 = 0;
pub const OP_CONSUME: u8 = 1;
pub const OP_NONE: u8 = 2;

/// Apply one operation to both the real ring and the spec.
pub fn apply<T: Copy + Bits + SymVal>(
    b: &Arc<Buffer<T>>,
    spec: &mut Spec<T>,
    op: u8,
    n: usize,
    commit_tags: &[usize],
) {
    match op {
        OP_PRODUCE => {
            let mut w = match b.clone().write_buf() {
                Ok(w) => w,
                Err(e) => {
                    std::mem::forget(e);
                    panic!("write_buf failed");
                }
            };
            let wl = w.len();
            let mut data = Vec::with_capacity(SPEC_MAX);
            {
                // The writer may scribble over its whole window; only n are committed.
                let s = w.slice();
                for i in 0..wl {
                    let v: T = any();
                    s[i] = v;
                    if i < n {
                        data.push(v);
                    }
                }
            }
            let mut st = Vec::with_capacity(SPEC_MAX);
            let mut tt = Vec::with_capacity(SPEC_MAX);
            for p in commit_tags {
                let t = STag::sym(*p);
                tt.push(t.to_tag(*p));
                st.push(t);
            }
            w.produce(n, &tt);
            std::mem::forget(tt);
            spec.commit(&data, &st);
            std::mem::forget(data);
            std::mem::forget(st);
        }
        OP_CONSUME => {
            let (r, tags) = match b.clone().read_buf() {
                Ok(x) => x,
                Err(e) => {
                    std::mem::forget(e);
                    panic!("read_buf failed");
                }
            };
            std::mem::forget(tags);
            r.consume(n);
            spec.consume(n);
        }
        _ => {}
    }
}

/// C01/C02 inductive step: arbitrary valid pre-state, one operation, full observation.
pub fn step<T: Copy + Bits + SymVal>(
    cap: usize,
    rpos: usize,
    used: usize,
    pre_tags: &[usize],
    op: u8,
    n: usize,
    commit_tags: &[usize],
) {
    let (b, mut spec) = pre_state::<T>(cap, rpos, used, pre_tags);
    observe(&b, &spec);
    apply(&b, &mut spec, op, n, commit_tags);
    witness!("step executed");
    observe(&b, &spec);
    std::mem::forget(b);
    std::mem::forget(spec);
}

/// C01 base case + short history from `Buffer::new` through the public API only
/// (plus `consume`, which blocks reach through `BufferReader::consume`).
/// `script` = list of (op, n, first commit tag position or usize::MAX).
pub fn history<T: Copy + Bits + SymVal>(cap: usize, script: &[(u8, usize, usize)]) {
    let b = new_ring::<T>(cap);
    let mut spec = Spec::new(cap);
    observe(&b, &spec);
    for (op, n, tagpos) in script {
        if *tagpos == usize::MAX {
            apply(&b, &mut spec, *op, *n, &[]);
        } else {
            apply(&b, &mut spec, *op, *n, &[*tagpos]);
        }
        observe(&b, &spec);
    }
    witness!("history executed");
    std::mem::forget(b);
    std::mem::forget(spec);
}

/// C01 refusal: an operation larger than the stream can honour must not return.
/// Run with `should_panic`; the witness after the call must be unreachable.
pub fn refuse<T: Copy + Bits + SymVal>(cap: usize, rpos: usize, used: usize, op: u8, n: usize) {
    let (b, mut spec) = pre_state::<T>(cap, rpos, used, &[]);
    match op {
        OP_PRODUCE => {
            let w = match b.clone().write_buf() {
                Ok(w) => w,
                Err(e) => {
                    std::mem::forget(e);
                    return;
                }
            };
            w.produce(n, &[]);
        }
        _ => {
            let (r, tags) = match b.clone().read_buf() {
                Ok(x) => x,
                Err(e) => {
                    std::mem::forget(e);
                    return;
                }
            };
            std::mem::forget(tags);
            r.consume(n);
        }
    }
    // Reaching this point means the oversized operation was accepted.
    witness!("RETURNED: oversized operation was accepted");
    let _ = &mut spec;
    std::mem::forget(b);
    std::mem::forget(spec);
}

// ---------------------------------------------------------------------------------
// C03: atomicity of each operation w.r.t. a concurrent peer, window disjointness,
// window ceiling.
// ---------------------------------------------------------------------------------
use std::sync::atomic::{AtomicUsize, Ordering};
const C03_BASE: usize = 0x6c33_0000_0000_0303;
static C03_PEER: AtomicUsize = AtomicUsize::new(C03_BASE);

/// Peer of the thread under observation.  At every scheduling point (lock / unlock of
/// the state mutex) it may perform one enabled operation of the *other* side.
struct Peer3<T: Copy> {
    ring: *const Buffer<T>,
    /// true: the observed op is a reader-side op, so the peer is the writer.
    peer_is_writer: bool,
    busy: bool,
    /// ops the peer performed before the observed critical section / after it
    pre: usize,
    post: usize,
    locked_seen: usize,
    in_section: bool,
    val_pre: T,
    val_post: T,
}

fn peer3_env<T: Copy + Bits + SymVal>(id: u32) {
    let p = unsafe { &mut *(C03_PEER.load(Ordering::SeqCst).wrapping_sub(C03_BASE) as *mut Peer3<T>) };
    if p.busy {
        return;
    }
    p.busy = true;
    // SAFETY: the ring outlives the harness body.
    let ring = unsafe { &*p.ring };
    if id == rustradio::verif::YP_LOCK {
        p.locked_seen += 1;
    }
    let before = id == rustradio::verif::YP_LOCK && p.locked_seen == 1;
    let after = id == rustradio::verif::YP_UNLOCK;
    let act: bool = any();
    if act && !acc::is_locked(ring) && ((before && p.pre == 0) || (after && p.post == 0)) {
        let (_, _, used, cap) = acc::state(ring);
        if p.peer_is_writer {
            if used < cap {
                // commit one symbolic sample
                let (_, wpos, _, _) = acc::state(ring);
                let v = if before { p.val_pre } else { p.val_post };
                acc::poke_one(ring, wpos, v);
                acc::produce(ring, 1, &[]);
                if before { p.pre = 1 } else { p.post = 1 }
            }
        } else if used > 0 {
            acc::consume(ring, 1);
            if before { p.pre = 1 } else { p.post = 1 }
        }
    }
    p.busy = false;
}

pub const A_FREE: u8 = 0;
pub const A_READ_BUF: u8 = 1;
pub const A_WRITE_BUF: u8 = 2;
pub const A_CONSUME: u8 = 3;
pub const A_PRODUCE: u8 = 4;

/// C03(a): one operation of the real ring while a peer acts at the scheduling points
/// around its critical section.  The result must be the spec step applied at the lock
/// point, there must be exactly one critical section, and the final state must be the
/// spec after (peer-before, op, peer-after).
pub fn atomic_op<T: Copy + Bits + SymVal>(cap: usize, rpos: usize, used: usize, op: u8, n: usize) {
    let (b, mut spec) = pre_state::<T>(cap, rpos, used, &[]);
    let reader_side = op == A_READ_BUF || op == A_CONSUME;
    let mut p = Peer3::<T> {
        ring: &*b as *const Buffer<T>,
        peer_is_writer: reader_side,
        busy: false,
        pre: 0,
        post: 0,
        locked_seen: 0,
        in_section: false,
        val_pre: any(),
        val_post: any(),
    };
    C03_PEER.store((&mut p as *mut Peer3<T> as usize).wrapping_add(C03_BASE), Ordering::SeqCst);
    let locks0 = rustradio::verif::LOCKS.load(Ordering::SeqCst);
    rustradio::verif::set_yield_hook(Some(peer3_env::<T>));
    // ---- the observed operation
    let mut got_len = usize::MAX;
    let mut got_free = usize::MAX;
    let mut win = (0usize, 0usize);
    let mut first: Option<T> = None;
    match op {
        A_FREE => got_free = b.free(),
        A_READ_BUF => {
            let (r, t) = match b.clone().read_buf() {
                Ok(x) => x,
                Err(e) => {
                    std::mem::forget(e);
                    panic!("read_buf failed");
                }
            };
            std::mem::forget(t);
            got_len = r.len();
            win = acc::reader_bounds(&r);
            if got_len > 0 {
                first = Some(r.slice()[got_len - 1]);
            }
            rustradio::verif::set_yield_hook(None);
            drop(r);
        }
        A_WRITE_BUF => {
            let w = match b.clone().write_buf() {
                Ok(x) => x,
                Err(e) => {
                    std::mem::forget(e);
                    panic!("write_buf failed");
                }
            };
            got_len = w.len();
            win = acc::writer_bounds(&w);
            rustradio::verif::set_yield_hook(None);
            drop(w);
        }
        A_CONSUME => acc::consume(&b, n),
        _ => {
            // fill the samples to be committed first (no lock involved)
            let (_, wpos, _, _) = acc::state(&b);
            let mut data = Vec::with_capacity(SPEC_MAX);
            for i in 0..n {
                let v: T = any();
                acc::poke_one(&b, (wpos + i) % (2 * cap), v);
                data.push(v);
            }
            acc::produce(&b, n, &[]);
            rustradio::verif::set_yield_hook(None);
            // spec: peer-before (a consume), then the commit, then peer-after
            if p.pre == 1 {
                spec.consume(1);
            }
            spec.commit(&data, &[]);
            if p.post == 1 {
                spec.consume(1);
            }
            std::mem::forget(data);
        }
    }
    rustradio::verif::set_yield_hook(None);
    let locks = rustradio::verif::LOCKS.load(Ordering::SeqCst) - locks0;
    // every peer operation is itself one critical section
    assert!(locks == 1 + p.pre + p.post, "operation used more (or fewer) than one critical section");
    // ---- expected result at the lock point
    match op {
        A_FREE => {
            // peer is the reader: a consume before the lock frees one more slot
            assert!(got_free == spec.free() + p.pre, "free() is not the value at its lock point");
            if p.pre == 1 { spec.consume(1); }
            if p.post == 1 { spec.consume(1); }
        }
        A_WRITE_BUF => {
            assert!(got_len == spec.free() + p.pre, "write window length is not the free space at its lock point");
            assert!(win.1 - win.0 == got_len);
            if p.pre == 1 { spec.consume(1); }
            if p.post == 1 { spec.consume(1); }
        }
        A_READ_BUF => {
            if p.pre == 1 {
                let d = [p.val_pre];
                spec.commit(&d, &[]);
            }
            assert!(got_len == spec.fifo.len(), "read window length is not the buffered count at its lock point");
            if got_len > 0 {
                assert!(first.unwrap().exact_eq(&spec.fifo[got_len - 1]), "read window does not end with the last committed sample");
            }
            if p.post == 1 {
                let d = [p.val_post];
                spec.commit(&d, &[]);
            }
        }
        A_CONSUME => {
            if p.pre == 1 {
                let d = [p.val_pre];
                spec.commit(&d, &[]);
            }
            spec.consume(n);
            if p.post == 1 {
                let d = [p.val_post];
                spec.commit(&d, &[]);
            }
        }
        _ => {}
    }
    witness!("operation executed under a concurrent peer");
    witness!(p.pre == 1, "OPTIONAL: peer acted before the critical section");
    witness!(p.post == 1, "OPTIONAL: peer acted after the critical section");
    observe(&b, &spec);
    std::mem::forget(b);
    std::mem::forget(spec);
    std::mem::forget(p);
}

/// C03(b): live windows of the two sides never overlap, and what a live read window
/// shows is not changed by the writer filling/committing its live window.
pub fn live_windows<T: Copy + Bits + SymVal>(cap: usize, rpos: usize, used: usize, m: usize, n: usize) {
    let (b, mut spec) = pre_state::<T>(cap, rpos, used, &[]);
    // writer takes its window first (snapshot of the free region) ...
    let mut w = match b.clone().write_buf() {
        Ok(x) => x,
        Err(e) => {
            std::mem::forget(e);
            panic!("write_buf failed");
        }
    };
    let (ws, we) = acc::writer_bounds(&w);
    // ... the reader consumes m and takes a new window while the write window is live
    acc::consume(&b, m);
    spec.consume(m);
    let (r, t) = match b.clone().read_buf() {
        Ok(x) => x,
        Err(e) => {
            std::mem::forget(e);
            panic!("read_buf failed");
        }
    };
    std::mem::forget(t);
    let (rs, re) = acc::reader_bounds(&r);
    // disjoint modulo capacity: no index of one window aliases an index of the other
    for i in ws..we {
        for j in rs..re {
            assert!(i % cap != j % cap, "live write window and live read window expose the same memory");
        }
    }
    // writer scribbles over its whole (stale) window and commits n <= its length
    let wl = w.len();
    let mut data = Vec::with_capacity(SPEC_MAX);
    {
        let s = w.slice();
        for i in 0..wl {
            let v: T = any();
            s[i] = v;
            if i < n {
                data.push(v);
            }
        }
    }
    {
        let s = r.slice();
        assert!(s.len() == spec.fifo.len());
        for i in 0..s.len() {
            assert!(s[i].exact_eq(&spec.fifo[i]), "live read window changed while the writer filled its window");
        }
    }
    w.produce(n, &[]);
    spec.commit(&data, &[]);
    {
        // the old read window still shows exactly the samples it was captured over
        let s = r.slice();
        for i in 0..s.len() {
            assert!(s[i].exact_eq(&spec.fifo[i]), "live read window changed by a commit");
        }
    }
    drop(r);
    witness!("windows checked");
    observe(&b, &spec);
    std::mem::forget(data);
    std::mem::forget(b);
    std::mem::forget(spec);
}

/// C03(c): with both stream ends and both windows alive a further window is refused.
pub fn ceiling(read_side: bool) {
    let (tx, rx) = rustradio::stream::verif_access::new_stream_sized::<u8>(2);
    let w = match tx.write_buf() {
        Ok(x) => x,
        Err(e) => {
            std::mem::forget(e);
            return;
        }
    };
    let r = match rx.read_buf() {
        Ok(x) => x,
        Err(e) => {
            std::mem::forget(e);
            return;
        }
    };
    // four handles now: two ends + two windows
    let refused = if read_side {
        match rx.read_buf() {
            Ok(x) => {
                std::mem::forget(x);
                false
            }
            Err(e) => {
                std::mem::forget(e);
                true
            }
        }
    } else {
        match tx.write_buf() {
            Ok(x) => {
                std::mem::forget(x);
                false
            }
            Err(e) => {
                std::mem::forget(e);
                true
            }
        }
    };
    if !refused {
        witness!("RETURNED: a third window on one stream was handed out");
    }
    std::mem::forget(w);
    std::mem::forget(r);
    std::mem::forget(tx);
    std::mem::forget(rx);
}

/// C01: an element size that does not divide the buffer ([u8;3] in 8 bytes, capacity 2) is
/// either refused (error / panic) or every later operation delivers the committed samples.
/// Run as a refusal harness: reaching the witness means corrupted data was delivered.
pub fn nondividing() {
    let b = match Buffer::<[u8; 3]>::new(8) {
        Ok(b) => Arc::new(b),
        Err(e) => {
            std::mem::forget(e);
            panic!("refused by Buffer::new (fine)");
        }
    };
    let s0: [u8; 3] = any();
    let s1: [u8; 3] = any();
    let s2: [u8; 3] = any();
    let mut w = match b.clone().write_buf() {
        Ok(w) => w,
        Err(e) => {
            std::mem::forget(e);
            panic!("refused (fine)");
        }
    };
    let wl = w.len();
    {
        let s = w.slice();
        if wl > 0 {
            s[0] = s0;
        }
        if wl > 1 {
            s[1] = s1;
        }
    }
    let n1 = if wl > 2 { 2 } else { wl };
    w.produce(n1, &[]);
    acc::consume(&b, 1);
    let mut w = match b.clone().write_buf() {
        Ok(w) => w,
        Err(e) => {
            std::mem::forget(e);
            panic!("refused (fine)");
        }
    };
    if w.len() == 0 {
        panic!("no space (fine)");
    }
    w.slice()[0] = s2;
    w.produce(1, &[]);
    // the read window now starts at index 1 and reaches index 2, the alias of index 0
    let (r, t) = match b.clone().read_buf() {
        Ok(x) => x,
        Err(e) => {
            std::mem::forget(e);
            panic!("refused (fine)");
        }
    };
    std::mem::forget(t);
    let ok = r.len() == 2 && r.slice()[0].exact_eq(&s1) && r.slice()[1].exact_eq(&s2);
    if !ok {
        witness!("RETURNED: a stream with a non-dividing element size was accepted and delivered corrupted data");
    }
    std::mem::forget((r, b));
}
