// placeholder; overwritten by /verif/bin/check
pub fn run_harness(_name: &str) -> bool { false }
