//! Symbolic values: `kani::any()` under Kani, bytes from a replay queue natively.
#[cfg(not(kani))]
use std::cell::RefCell;

#[cfg(not(kani))]
thread_local! {
    static QUEUE: RefCell<(Vec<u8>, usize)> = const { RefCell::new((Vec::new(), 0)) };
}

/// Load the concrete values for a native replay.
#[cfg(not(kani))]
pub fn load(bytes: Vec<u8>) {
    QUEUE.with(|q| *q.borrow_mut() = (bytes, 0));
}

#[cfg(not(kani))]
fn take(n: usize) -> Vec<u8> {
    QUEUE.with(|q| {
        let mut q = q.borrow_mut();
        let pos = q.1;
        let mut v = vec![0u8; n];
        for i in 0..n {
            // Missing bytes replay as zero (a value the solver left unconstrained).
            v[i] = *q.0.get(pos + i).unwrap_or(&0);
        }
        q.1 = pos + n;
        v
    })
}

pub trait SymVal: Sized {
    fn sym() -> Self;
}
macro_rules! sym_int {
    ($($t:ty),*) => {$(
        impl SymVal for $t {
            #[cfg(kani)]
            fn sym() -> Self { kani::any() }
            #[cfg(not(kani))]
            fn sym() -> Self {
                let b = take(std::mem::size_of::<$t>());
                <$t>::from_le_bytes(b.try_into().unwrap())
            }
        }
    )*};
}
sym_int!(u8, u16, u32, u64, usize, i8, i16, i32, i64, f32);
impl SymVal for bool {
    #[cfg(kani)]
    fn sym() -> Self {
        kani::any()
    }
    #[cfg(not(kani))]
    fn sym() -> Self {
        take(1)[0] & 1 == 1
    }
}
impl<const N: usize> SymVal for [u8; N] {
    fn sym() -> Self {
        let mut a = [0u8; N];
        let mut i = 0;
        while i < N {
            a[i] = u8::sym();
            i += 1;
        }
        a
    }
}
impl SymVal for rustradio::Complex {
    fn sym() -> Self {
        let re = f32::sym();
        let im = f32::sym();
        rustradio::Complex::new(re, im)
    }
}

pub fn any<T: SymVal>() -> T {
    T::sym()
}

/// Restrict the symbolic values (a precondition, listed in the evidence).
pub fn assume(c: bool) {
    #[cfg(kani)]
    kani::assume(c);
    #[cfg(not(kani))]
    if !c {
        panic!("REPLAY-ASSUME-FAILED: concrete values violate a harness assumption");
    }
}

/// Reachability witness.
#[macro_export]
macro_rules! witness {
    ($msg:literal) => {
        #[cfg(kani)]
        kani::cover!(true, $msg);
    };
    ($c:expr, $msg:literal) => {
        #[cfg(kani)]
        kani::cover!($c, $msg);
    };
}

/// Statement that must be unreachable (e.g. after a call that has to be refused).
#[macro_export]
macro_rules! must_not_reach {
    ($msg:literal) => {
        panic!($msg);
    };
}

/// Bit-exact equality for sample types.
pub trait Bits: Copy {
    /// Equality used for *computed* values (all NaNs identified).
    fn bits_eq(&self, o: &Self) -> bool;
    /// Exact bit pattern equality (values that are only moved/serialised).
    fn exact_eq(&self, o: &Self) -> bool {
        self.bits_eq(o)
    }
}
macro_rules! bits_int {
    ($($t:ty),*) => {$( impl Bits for $t { fn bits_eq(&self, o:&Self)->bool { *self == *o } } )*};
}
bits_int!(u8, u16, u32, u64, usize, i8, i16, i32, i64, bool);
impl Bits for f32 {
    /// Bit-identical, with all NaNs identified (the payload of a *computed* NaN is not
    /// specified by IEEE 754 and is nondeterministic in CBMC's float model).
    fn bits_eq(&self, o: &Self) -> bool {
        self.to_bits() == o.to_bits() || (self.is_nan() && o.is_nan())
    }
    fn exact_eq(&self, o: &Self) -> bool {
        self.to_bits() == o.to_bits()
    }
}
impl Bits for rustradio::Complex {
    fn bits_eq(&self, o: &Self) -> bool {
        self.re.bits_eq(&o.re) && self.im.bits_eq(&o.im)
    }
    fn exact_eq(&self, o: &Self) -> bool {
        self.re.to_bits() == o.re.to_bits() && self.im.to_bits() == o.im.to_bits()
    }
}
impl<const N: usize> Bits for [u8; N] {
    fn bits_eq(&self, o: &Self) -> bool {
        let mut i = 0;
        while i < N {
            if self[i] != o[i] {
                return false;
            }
            i += 1;
        }
        true
    }
}

/// Stub for `std::fmt::format` (formatting is not the subject of any harness).
pub fn fmt_stub(_a: std::fmt::Arguments<'_>) -> String {
    String::new()
}

/// Engine canary: must always be reported as failing (soundness check of the pipeline).
pub fn canary() {
    let x: u8 = any();
    assert!(x != 77, "engine canary");
}
