//! Native replay: `replay <harness> <hex of concatenated symbolic values>`.
//! Runs the same harness body as Kani did, with the solver's concrete values.
#[cfg(kani)]
fn main() {}

#[cfg(not(kani))]
fn main() {
    let a: Vec<String> = std::env::args().collect();
    if a.len() < 2 {
        eprintln!("usage: replay <harness> [hexbytes]");
        std::process::exit(2);
    }
    let hex = a.get(2).map(|s| s.as_str()).unwrap_or("");
    let mut bytes = Vec::new();
    let h = hex.as_bytes();
    let mut i = 0;
    while i + 1 < h.len() {
        let s = std::str::from_utf8(&h[i..i + 2]).unwrap();
        bytes.push(u8::from_str_radix(s, 16).expect("hex"));
        i += 2;
    }
    rrverif::sym::load(bytes);
    if !rrverif::run_harness(&a[1]) {
        eprintln!("unknown harness {}", a[1]);
        std::process::exit(2);
    }
    println!("REPLAY-PASSED {}", a[1]);
}
