//! C13: HDLC deframer.
use crate::blk::*;
use crate::sym::{any, assume};
use crate::witness;
use rustradio::hdlc_deframer::HdlcDeframer;
use rustradio::hdlc_deframer::verif_access as acc;
use rustradio::stream::verif_access::new_stream_sized;
use rustradio::stream::NCReadStream;

/// CRC-16/X.25 (RFC 1662 FCS-16) bit by bit: reflected polynomial 0x8408, init 0xffff,
/// final complement.  Written from the definition, not from the table.
pub fn crc_ref(data: &[u8]) -> u16 {
    let mut fcs: u16 = 0xffff;
    for byte in data {
        let mut b = *byte;
        for _ in 0..8 {
            let bit = ((fcs ^ b as u16) & 1) != 0;
            fcs >>= 1;
            if bit {
                fcs ^= 0x8408;
            }
            b >>= 1;
        }
    }
    !fcs
}

/// 1. calc_crc == bitwise reference for every input of `n` bytes.
pub fn crc_equiv(n: usize) {
    let mut d = Vec::with_capacity(8);
    for _ in 0..n {
        d.push(any::<u8>());
    }
    let got = acc::calc_crc(&d);
    assert!(got == crc_ref(&d), "calc_crc differs from the bitwise CRC-16/X.25 definition");
    witness!("crc compared");
    std::mem::forget(d);
}

/// 1b. bits2byte is LSB-first for every 8-bit input.
pub fn bits2byte_equiv() {
    let mut bits = Vec::with_capacity(8);
    let v: u8 = any();
    for i in 0..8 {
        bits.push((v >> i) & 1);
    }
    assert!(acc::bits2byte(&bits) == v, "bits2byte is not LSB first");
    witness!("bits2byte compared");
    std::mem::forget(bits);
}

/// 1c. find_right_crc: with a matching CRC nothing is changed; with fixing on, a single
/// flipped data bit is repaired to the original; whatever is returned has a CRC equal to
/// the returned CRC, and data is only ever returned together with crc == got.
pub fn find_right_crc_props(n: usize, fix: bool) {
    let mut d = Vec::with_capacity(8);
    for _ in 0..n {
        d.push(any::<u8>());
    }
    let good = crc_ref(&d);
    // corrupt at most one data bit
    let flip: bool = any();
    let pos: u8 = any();
    assume((pos as usize) < n * 8 || n == 0);
    let mut c = Vec::with_capacity(8);
    for i in 0..n {
        let mut b = d[i];
        if flip && (pos as usize) / 8 == i {
            b ^= 1 << (pos % 8);
        }
        c.push(b);
    }
    let flipped = flip && n > 0;
    let (newdata, crc, fixed) = acc::find_right_crc(&c, good, fix);
    if !flipped {
        assert!(newdata.is_none() && crc == good && !fixed, "intact frame must be accepted unchanged");
    } else if fix {
        match &newdata {
            Some(nd) => {
                assert!(crc == good && fixed, "repair must report the received CRC");
                assert!(nd.len() == n);
                for i in 0..n {
                    assert!(nd[i] == d[i], "single-bit repair did not restore the original data");
                }
            }
            None => {
                // not repaired: must then not claim a matching CRC
                assert!(crc != good, "unrepaired corrupted frame reported with matching CRC");
            }
        }
    } else {
        assert!(newdata.is_none(), "fixing disabled but data was modified");
        assert!(crc != good, "corrupted frame accepted (CRC of corrupted data equals the original CRC?)");
    }
    witness!("find_right_crc checked");
    witness!(flipped, "OPTIONAL: corrupted case reachable");
    std::mem::forget(d);
    std::mem::forget(c);
    std::mem::forget(newdata);
}

// ---------------------------------------------------------------------------------
// Reference automaton on registers (no heap): collected bits live in a u64, LSB = oldest.
// Written from the protocol description: flag 0x7e, bit stuffing after five ones, seven
// ones abort, strip the 7 flag bits seen so far, whole bytes only, size limits, FCS.
// ---------------------------------------------------------------------------------
#[derive(Clone, Copy)]
pub struct RefState {
    pub mode: u8,
    pub small: u8,
    pub reg: u64,
    pub len: usize,
}
#[derive(Clone, Copy)]
pub struct RefOut {
    pub emitted: bool,
    pub nbytes: usize,
    pub bytes: [u8; 8],
    pub crc_error: bool,
}

pub fn ref_step(s: RefState, bit: u8, min_size: usize, max_size: usize, checksum: bool) -> (RefState, RefOut) {
    let mut out = RefOut { emitted: false, nbytes: 0, bytes: [0; 8], crc_error: false };
    let unsynced = RefState { mode: acc::M_UNSYNCED, small: 0xff, reg: 0, len: 0 };
    let fresh = RefState { mode: acc::M_SYNCED, small: 0, reg: 0, len: 0 };
    match s.mode {
        0 => {
            let n = (s.small >> 1) | (bit << 7);
            if n == 0x7e {
                (fresh, out)
            } else {
                (RefState { mode: acc::M_UNSYNCED, small: n, reg: 0, len: 0 }, out)
            }
        }
        1 => {
            if s.len > max_size * 8 {
                return (unsynced, out);
            }
            if bit > 0 {
                let reg = s.reg | (1u64 << s.len);
                if s.small == 5 {
                    (RefState { mode: acc::M_FINAL, small: 0, reg, len: s.len + 1 }, out)
                } else {
                    (RefState { mode: acc::M_SYNCED, small: s.small + 1, reg, len: s.len + 1 }, out)
                }
            } else if s.small == 5 {
                (RefState { mode: acc::M_SYNCED, small: 0, reg: s.reg, len: s.len }, out)
            } else {
                (RefState { mode: acc::M_SYNCED, small: 0, reg: s.reg, len: s.len + 1 }, out)
            }
        }
        _ => {
            if bit == 1 || s.len < 7 {
                return (unsynced, out);
            }
            let len = s.len - 7;
            if len % 8 == 0 && len / 8 >= min_size {
                let nb = len / 8;
                let mut bytes = [0u8; 8];
                for i in 0..nb {
                    bytes[i] = ((s.reg >> (8 * i)) & 0xff) as u8;
                }
                if checksum {
                    // A frame must at least hold its two FCS bytes.
                    if nb >= 2 {
                        let got = (bytes[nb - 2] as u16) | ((bytes[nb - 1] as u16) << 8);
                        let want = crc_ref(&bytes[..nb - 2]);
                        if got == want {
                            out.emitted = true;
                            out.nbytes = nb - 2;
                            out.bytes = bytes;
                        } else {
                            out.crc_error = true;
                        }
                    }
                } else {
                    out.emitted = true;
                    out.nbytes = nb;
                    out.bytes = bytes;
                }
            }
            (fresh, out)
        }
    }
}

fn pop_packet(rx: &NCReadStream<Vec<u8>>) -> Option<Vec<u8>> {
    match rx.pop() {
        Some((v, t)) => {
            std::mem::forget(t);
            Some(v)
        }
        None => None,
    }
}

/// 2. Inductive step: the real update_state from an arbitrary state (collected-bit count
/// `len` concrete, contents symbolic) agrees with the reference automaton: successor
/// state, emitted packet, nothing else emitted.  fix_bits off.
pub fn step_equiv(mode: u8, len: usize, min_size: usize, max_size: usize, checksum: bool) {
    step_equiv2(mode, len, min_size, max_size, checksum, true)
}

/// `use_setter == false`: checksum checking is left at the constructor's default (on).
pub fn step_equiv2(mode: u8, len: usize, min_size: usize, max_size: usize, checksum: bool, use_setter: bool) {
    let (_tx, rxs) = new_stream_sized::<u8>(2);
    let (mut d, out) = HdlcDeframer::new(rxs, min_size, max_size);
    if use_setter {
        d.set_checksum(checksum);
    } else {
        assert!(checksum, "harness: the default is checksum on");
    }
    let small: u8 = any();
    if mode == acc::M_SYNCED {
        assume(small <= 5);
    }
    let mut bits = Vec::with_capacity(if len == 0 { 1 } else { len + 1 });
    let mut reg: u64 = 0;
    for i in 0..len {
        let b: u8 = any();
        assume(b <= 1);
        bits.push(b);
        reg |= (b as u64) << i;
    }
    acc::set_state(&mut d, mode, small, bits);
    let bit: u8 = any();
    assume(bit <= 1);
    let ok = acc::step(&mut d, bit);
    assert!(ok, "update_state returned an error");
    let s0 = RefState { mode, small: if mode == acc::M_FINAL { 0 } else { small }, reg: if mode == acc::M_UNSYNCED { 0 } else { reg }, len: if mode == acc::M_UNSYNCED { 0 } else { len } };
    let (s1, o) = ref_step(s0, bit, min_size, max_size, checksum);
    let (m, sm, l) = acc::state(&d);
    assert!(m == s1.mode, "successor mode differs from the reference automaton");
    if m != acc::M_FINAL {
        assert!(sm == s1.small, "successor flag/ones register differs from the reference automaton");
    }
    assert!(l == s1.len, "successor collected-bit count differs from the reference automaton");
    for i in 0..l {
        assert!(acc::state_bit(&d, i) as u64 == (s1.reg >> i) & 1, "collected bits differ from the reference automaton");
    }
    let p = pop_packet(&out);
    match &p {
        Some(v) => {
            assert!(o.emitted, "a packet was emitted that the reference automaton does not emit");
            assert!(v.len() == o.nbytes, "emitted packet length differs");
            for i in 0..v.len() {
                assert!(v[i] == o.bytes[i], "emitted packet bytes differ");
            }
        }
        None => assert!(!o.emitted, "reference automaton emits a packet, the deframer did not"),
    }
    assert!(out.pop().is_none(), "more than one packet emitted by one step");
    witness!("step compared");
    std::mem::forget(p);
    std::mem::forget(d);
    std::mem::forget(out);
    std::mem::forget(_tx);
}

/// 4. work() is a fold of update_state over the input, for any chunking: `n` symbolic
/// bits delivered in two pieces (split concrete) leave the same state and output as the
/// same bits through `step`.
pub fn work_is_fold(n: usize, split: usize, min_size: usize, max_size: usize, checksum: bool) {
    let mut bits = Vec::with_capacity(n + 1);
    for _ in 0..n {
        let b: u8 = any();
        assume(b <= 1);
        bits.push(b);
    }
    // real block through streams
    let (tx, rxs) = new_stream_sized::<u8>(n.max(1));
    let (mut d, out) = HdlcDeframer::new(rxs, min_size, max_size);
    d.set_checksum(checksum);
    let mut next = 0;
    feed(&tx, &bits, &mut next, split, &[]);
    let v1 = work_once(&mut d);
    feed(&tx, &bits, &mut next, usize::MAX, &[]);
    let v2 = work_once(&mut d);
    assert!(v1 != Verdict::Err && v2 != Verdict::Err, "work() failed");
    assert!(next == n);
    // fold
    let (_tx2, rxs2) = new_stream_sized::<u8>(1);
    let (mut e, out2) = HdlcDeframer::new(rxs2, min_size, max_size);
    e.set_checksum(checksum);
    for i in 0..n {
        let ok = acc::step(&mut e, bits[i]);
        assert!(ok);
    }
    let (m1, s1, l1) = acc::state(&d);
    let (m2, s2, l2) = acc::state(&e);
    assert!(m1 == m2 && s1 == s2 && l1 == l2, "state after work() differs from the fold of update_state");
    let a = pop_packet(&out);
    let b = pop_packet(&out2);
    match (&a, &b) {
        (Some(x), Some(y)) => {
            assert!(x.len() == y.len());
            for i in 0..x.len() {
                assert!(x[i] == y[i], "packet differs between work() and fold");
            }
        }
        (None, None) => {}
        _ => panic!("packet emitted by only one of work() / fold"),
    }
    witness!("fold compared");
    std::mem::forget((a, b, d, e, out, out2, tx, _tx2, bits));
}
