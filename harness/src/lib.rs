//! Kani harnesses over the real rustradio code (see /verif/DESIGN.md).
//!
//! Harness bodies are ordinary generic functions with *concrete* size arguments;
//! `gen.rs` (written by /verif/bin/check) contains one `#[kani::proof]` wrapper per
//! enumerated shape plus a name -> function registry for native replay.
#![allow(clippy::all)]
#![allow(dead_code, unused_imports, unused_variables, unused_mut)]
pub mod sym;
pub mod ring;
pub mod c16;
pub mod blk;
pub mod c08;
pub mod c04;
pub mod c13;
pub mod c14;
pub mod c06;
pub mod c10;
pub mod c12;
pub mod c09;
pub mod c19;
pub mod c11;
pub mod c15;
pub mod c17;

include!("gen.rs");
