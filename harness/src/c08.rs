//! C08: every block is a pure stream function (output independent of chunking).
//! One wrapper per block instantiation; sizes concrete, samples/parameters symbolic.
use crate::blk::*;
use crate::sym::{Bits, SymVal, any, assume};
use crate::witness;
use rustradio::Complex;
use rustradio::blocks::*;
use rustradio::stream::ReadStream;

/// Wrapping 8-bit integer: lets the generic arithmetic blocks run without the
/// (intended) overflow panics of primitive integers.
#[derive(Clone, Copy, Default, PartialEq, Debug)]
pub struct W8(pub u8);
impl std::ops::Add for W8 {
    type Output = W8;
    fn add(self, o: W8) -> W8 {
        W8(self.0.wrapping_add(o.0))
    }
}
impl std::ops::Mul for W8 {
    type Output = W8;
    fn mul(self, o: W8) -> W8 {
        W8(self.0.wrapping_mul(o.0))
    }
}
impl std::ops::BitXor for W8 {
    type Output = W8;
    fn bitxor(self, o: W8) -> W8 {
        W8(self.0 ^ o.0)
    }
}
impl SymVal for W8 {
    fn sym() -> Self {
        W8(any())
    }
}
impl Bits for W8 {
    fn bits_eq(&self, o: &Self) -> bool {
        self.0 == o.0
    }
}

fn finish<O>(a: Collected<O>, b: Collected<O>) {
    witness!("schedule executed and outputs compared");
    std::mem::forget(a);
    std::mem::forget(b);
}

pub fn bits_vec(n: usize) -> Vec<u8> {
    let mut v = Vec::with_capacity(if n == 0 { 1 } else { n });
    for _ in 0..n {
        let b: u8 = any();
        assume(b <= 1);
        v.push(b);
    }
    v
}

pub fn add_const(l: usize, cap: usize, sched: &[(usize, usize)], br: usize) {
    let c: W8 = any();
    let input = sym_vec::<W8>(l);
    let (a, b) = ab_11(&|src| AddConst::new(src, c), &input, &[], cap, sched, l.max(1), 3, br);
    std::mem::forget(input);
    finish(a, b);
}

pub fn xor_const(l: usize, cap: usize, sched: &[(usize, usize)], br: usize) {
    let c: u8 = any();
    let input = sym_vec::<u8>(l);
    let (a, b) = ab_11(&|src| XorConst::new(src, c), &input, &[], cap, sched, l.max(1), 3, br);
    std::mem::forget(input);
    finish(a, b);
}

pub fn multiply_const(l: usize, cap: usize, sched: &[(usize, usize)], br: usize) {
    let c: W8 = any();
    let input = sym_vec::<W8>(l);
    let (a, b) = ab_11(&|src| MultiplyConst::new(src, c), &input, &[], cap, sched, l.max(1), 3, br);
    std::mem::forget(input);
    finish(a, b);
}

pub fn nrzi(l: usize, cap: usize, sched: &[(usize, usize)], br: usize) {
    let input = bits_vec(l);
    let (a, b) = ab_11(&|src| NrziDecode::new(src), &input, &[], cap, sched, l.max(1), 3, br);
    std::mem::forget(input);
    finish(a, b);
}

pub fn descrambler(l: usize, cap: usize, sched: &[(usize, usize)], br: usize) {
    let mask: u64 = any();
    let seed: u64 = any();
    let len: u8 = any();
    assume(len < 64);
    let input = bits_vec(l);
    let (a, b) = ab_11(&|src| Descrambler::new(src, mask, seed, len), &input, &[], cap, sched, l.max(1), 3, br);
    std::mem::forget(input);
    finish(a, b);
}

pub fn binary_slicer(l: usize, cap: usize, sched: &[(usize, usize)], br: usize) {
    let input = sym_vec::<f32>(l);
    let (a, b) = ab_11(&|src| BinarySlicer::new(src), &input, &[], cap, sched, l.max(1), 3, br);
    std::mem::forget(input);
    finish(a, b);
}

pub fn skip(l: usize, cap: usize, sched: &[(usize, usize)], br: usize, skip: usize) {
    let input = sym_vec::<u8>(l);
    let (a, b) = ab_11(&|src| Skip::new(src, skip), &input, &[], cap, sched, l.max(1), 4, br);
    std::mem::forget(input);
    finish(a, b);
}

pub fn delay(l: usize, cap: usize, sched: &[(usize, usize)], br: usize, d: usize) {
    let input = sym_vec::<u8>(l);
    let (a, b) = ab_11(&|src| Delay::new(src, d), &input, &[], cap, sched, l + d + 1, 4, br);
    std::mem::forget(input);
    finish(a, b);
}

pub fn resampler(l: usize, cap: usize, sched: &[(usize, usize)], br: usize, interp: usize, deci: usize) {
    let input = sym_vec::<u8>(l);
    let mk = |src: ReadStream<u8>| match RationalResampler::new(src, interp, deci) {
        Ok(x) => x,
        Err(e) => {
            std::mem::forget(e);
            panic!("RationalResampler::new failed");
        }
    };
    let (a, b) = ab_11(&mk, &input, &[], cap, sched, l * interp + 1, 3, br);
    std::mem::forget(input);
    finish(a, b);
}

pub fn rtlsdr_decode(l: usize, cap: usize, sched: &[(usize, usize)], br: usize) {
    let input = sym_vec::<u8>(l);
    let (a, b) = ab_11(&|src| RtlSdrDecode::new(src), &input, &[], cap, sched, l.max(1), 3, br);
    std::mem::forget(input);
    finish(a, b);
}

pub fn correlate_access_code(l: usize, cap: usize, sched: &[(usize, usize)], br: usize, codelen: usize, allowed: usize) {
    let input = bits_vec(l);
    let code = bits_vec(codelen);
    let mk = |src: ReadStream<u8>| {
        let mut c = Vec::with_capacity(4);
        for x in code.iter() {
            c.push(*x);
        }
        CorrelateAccessCode::new(src, c, allowed)
    };
    let (a, b) = ab_11(&mk, &input, &[], cap, sched, l.max(1), 3, br);
    std::mem::forget(input);
    std::mem::forget(code);
    finish(a, b);
}

pub fn complex_to_mag2(l: usize, cap: usize, sched: &[(usize, usize)], br: usize) {
    let input = sym_vec::<Complex>(l);
    let (a, b) = ab_11(&|src| ComplexToMag2::new(src), &input, &[], cap, sched, l.max(1), 3, br);
    std::mem::forget(input);
    finish(a, b);
}

pub fn single_pole_iir(l: usize, cap: usize, sched: &[(usize, usize)], br: usize) {
    let input = sym_vec::<f32>(l);
    let mk = |src: ReadStream<f32>| match SinglePoleIirFilter::new(src, 0.25) {
        Some(x) => x,
        None => panic!("SinglePoleIirFilter::new failed"),
    };
    let (a, b) = ab_11(&mk, &input, &[], cap, sched, l.max(1), 3, br);
    std::mem::forget(input);
    finish(a, b);
}
