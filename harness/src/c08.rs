//! C08: every block is a pure stream function (output independent of chunking).
//! One wrapper per block instantiation; sizes concrete, samples/parameters symbolic.
use crate::blk::*;
use crate::sym::{Bits, SymVal, any, assume};
use crate::witness;
use rustradio::Complex;
use rustradio::blocks::*;
use rustradio::stream::ReadStream;

/// Wrapping 8-bit integer: lets the generic arithmetic blocks run without the
/// (intended) overflow panics of primitive integers.
#[derive(Clone, Copy, Default, PartialEq, Debug)]
pub struct W8(pub u8);
impl std::ops::Add for W8 {
    type Output = W8;
    fn add(self, o: W8) -> W8 {
        W8(self.0.wrapping_add(o.0))
    }
}
impl std::ops::Mul for W8 {
    type Output = W8;
    fn mul(self, o: W8) -> W8 {
        W8(self.0.wrapping_mul(o.0))
    }
}
impl std::ops::BitXor for W8 {
    type Output = W8;
    fn bitxor(self, o: W8) -> W8 {
        W8(self.0 ^ o.0)
    }
}
impl SymVal for W8 {
    fn sym() -> Self {
        W8(any())
    }
}
impl Bits for W8 {
    fn bits_eq(&self, o: &Self) -> bool {
        self.0 == o.0
    }
}

fn finish<O>(a: Collected<O>, b: Collected<O>) {
    witness!("schedule executed and outputs compared");
    std::mem::forget(a);
    std::mem::forget(b);
}

pub fn bits_vec(n: usize) -> Vec<u8> {
    let mut v = Vec::with_capacity(if n == 0 { 1 } else { n });
    for _ in 0..n {
        let b: u8 = any();
        assume(b <= 1);
        v.push(b);
    }
    v
}

pub fn add_const(l: usize, cap: usize, sched: &[(usize, usize)], br: usize) {
    let c: W8 = any();
    let input = sym_vec::<W8>(l);
    let (a, b) = ab_11(&|src| AddConst::new(src, c), &input, &[], cap, sched, l.max(1), 3, br);
    std::mem::forget(input);
    finish(a, b);
}

pub fn xor_const(l: usize, cap: usize, sched: &[(usize, usize)], br: usize) {
    let c: u8 = any();
    let input = sym_vec::<u8>(l);
    let (a, b) = ab_11(&|src| XorConst::new(src, c), &input, &[], cap, sched, l.max(1), 3, br);
    std::mem::forget(input);
    finish(a, b);
}

pub fn multiply_const(l: usize, cap: usize, sched: &[(usize, usize)], br: usize) {
    let c: W8 = any();
    let input = sym_vec::<W8>(l);
    let (a, b) = ab_11(&|src| MultiplyConst::new(src, c), &input, &[], cap, sched, l.max(1), 3, br);
    std::mem::forget(input);
    finish(a, b);
}

pub fn nrzi(l: usize, cap: usize, sched: &[(usize, usize)], br: usize) {
    let input = bits_vec(l);
    let (a, b) = ab_11(&|src| NrziDecode::new(src), &input, &[], cap, sched, l.max(1), 3, br);
    std::mem::forget(input);
    finish(a, b);
}

pub fn descrambler(l: usize, cap: usize, sched: &[(usize, usize)], br: usize) {
    let mask: u64 = any();
    let seed: u64 = any();
    let len: u8 = any();
    assume(len < 64);
    let input = bits_vec(l);
    let (a, b) = ab_11(&|src| Descrambler::new(src, mask, seed, len), &input, &[], cap, sched, l.max(1), 3, br);
    std::mem::forget(input);
    finish(a, b);
}

pub fn binary_slicer(l: usize, cap: usize, sched: &[(usize, usize)], br: usize) {
    let input = sym_vec::<f32>(l);
    let (a, b) = ab_11(&|src| BinarySlicer::new(src), &input, &[], cap, sched, l.max(1), 3, br);
    std::mem::forget(input);
    finish(a, b);
}

pub fn skip(l: usize, cap: usize, sched: &[(usize, usize)], br: usize, skip: usize) {
    let input = sym_vec::<u8>(l);
    let (a, b) = ab_11(&|src| Skip::new(src, skip), &input, &[], cap, sched, l.max(1), 4, br);
    std::mem::forget(input);
    finish(a, b);
}

pub fn delay(l: usize, cap: usize, sched: &[(usize, usize)], br: usize, d: usize) {
    let input = sym_vec::<u8>(l);
    let (a, b) = ab_11(&|src| Delay::new(src, d), &input, &[], cap, sched, l + d + 1, 4, br);
    std::mem::forget(input);
    finish(a, b);
}

pub fn resampler(l: usize, cap: usize, sched: &[(usize, usize)], br: usize, interp: usize, deci: usize) {
    let input = sym_vec::<u8>(l);
    let mk = |src: ReadStream<u8>| match RationalResampler::new(src, interp, deci) {
        Ok(x) => x,
        Err(e) => {
            std::mem::forget(e);
            panic!("RationalResampler::new failed");
        }
    };
    let (a, b) = ab_11(&mk, &input, &[], cap, sched, l * interp + 1, 3, br);
    std::mem::forget(input);
    finish(a, b);
}

pub fn rtlsdr_decode(l: usize, cap: usize, sched: &[(usize, usize)], br: usize) {
    let input = sym_vec::<u8>(l);
    let (a, b) = ab_11(&|src| RtlSdrDecode::new(src), &input, &[], cap, sched, l.max(1), 3, br);
    std::mem::forget(input);
    finish(a, b);
}

pub fn correlate_access_code(l: usize, cap: usize, sched: &[(usize, usize)], br: usize, codelen: usize, allowed: usize) {
    let input = bits_vec(l);
    let code = bits_vec(codelen);
    let mk = |src: ReadStream<u8>| {
        let mut c = Vec::with_capacity(4);
        for x in code.iter() {
            c.push(*x);
        }
        CorrelateAccessCode::new(src, c, allowed)
    };
    let (a, b) = ab_11(&mk, &input, &[], cap, sched, l.max(1), 3, br);
    std::mem::forget(input);
    std::mem::forget(code);
    finish(a, b);
}

pub fn complex_to_mag2(l: usize, cap: usize, sched: &[(usize, usize)], br: usize) {
    let input = sym_vec::<Complex>(l);
    let (a, b) = ab_11(&|src| ComplexToMag2::new(src), &input, &[], cap, sched, l.max(1), 3, br);
    std::mem::forget(input);
    finish(a, b);
}

pub fn single_pole_iir(l: usize, cap: usize, sched: &[(usize, usize)], br: usize) {
    let input = sym_vec::<f32>(l);
    let mk = |src: ReadStream<f32>| match SinglePoleIirFilter::new(src, 0.25) {
        Some(x) => x,
        None => panic!("SinglePoleIirFilter::new failed"),
    };
    let (a, b) = ab_11(&mk, &input, &[], cap, sched, l.max(1), 3, br);
    std::mem::forget(input);
    finish(a, b);
}

/// FirFilter<W16>: chunking independence + definition (shared with C11).
pub fn fir(ntaps: usize, deci: usize, l: usize, cap: usize, sched: &[(usize, usize)], br: usize) {
    crate::c11::fir_block(ntaps, deci, l, cap, sched, br);
}

/// AuDecode: a well-formed 28-byte header (bitrate symbolic) followed by `nd` symbolic data
/// bytes, delivered in the scheduled pieces vs. at once.
pub fn au_decode(nd: usize, cap_in: usize, cap_out: usize, sched: &[(usize, usize)], br: usize) {
    let rate: u32 = any();
    let mut input: Vec<u8> = Vec::with_capacity(48);
    for b in [0x2eu8, 0x73, 0x6e, 0x64, 0, 0, 0, 28, 0xff, 0xff, 0xff, 0xff, 0, 0, 0, 3] {
        input.push(b);
    }
    input.push((rate >> 24) as u8);
    input.push((rate >> 16) as u8);
    input.push((rate >> 8) as u8);
    input.push(rate as u8);
    for b in [0u8, 0, 0, 1, 0, 0, 0, 0] {
        input.push(b);
    }
    for _ in 0..nd {
        input.push(any::<u8>());
    }
    let mk = |src: ReadStream<u8>| rustradio::au::AuDecode::new(src, rate);
    // instance A
    let mut a = Rig11::new(input.len(), 32, &mk);
    a.flush(&input, &[], 8);
    // instance B
    let mut b = Rig11::new(cap_in, cap_out, &mk);
    for (f, d) in sched {
        let v = b.step(&input, &[], *f, *d);
        assert!(v != Verdict::Err, "work() returned an error on a well-formed stream");
        assert!(b.out.data.len() <= a.out.data.len(), "scheduled run produced more output than the one-shot run");
        for i in 0..b.out.data.len() {
            assert!(b.out.data[i].bits_eq(&a.out.data[i]), "scheduled output is not a prefix of the one-shot output");
        }
    }
    b.flush(&input, &[], br);
    assert!(a.next == input.len() && b.next == input.len(), "BOUND: not all input was taken");
    assert!(b.out.data.len() == a.out.data.len(), "output length depends on chunking");
    for i in 0..a.out.data.len() {
        assert!(b.out.data[i].bits_eq(&a.out.data[i]), "output sample depends on chunking");
    }
    witness!("schedule executed and outputs compared");
    std::mem::forget((a, b, input));
}

/// AuEncode: header + PCM16 big-endian, chunked vs one-shot.
pub fn au_encode(l: usize, cap: usize, sched: &[(usize, usize)], br: usize) {
    let input = sym_vec::<f32>(l);
    let rate: u32 = any();
    let mk = |src: ReadStream<f32>| rustradio::au::AuEncode::new(src, rustradio::au::Encoding::Pcm16, rate, 1);
    let mut a = Rig11::new(l.max(1), 28 + 2 * l + 2, &mk);
    a.out.data = Vec::with_capacity(48);
    // drive A
    let mut idle = false;
    for _ in 0..5 {
        let a0 = activity();
        let f = feed(&a.tx, &input, &mut a.next, usize::MAX, &[]);
        let _ = work_once(&mut a.b);
        idle = f == 0 && activity() == a0;
    }
    assert!(idle, "BOUND: AuEncode A not quiescent");
    let (ra, _t) = match a.rx.read_buf() {
        Ok(x) => x,
        Err(e) => {
            std::mem::forget(e);
            panic!("read_buf");
        }
    };
    let na = ra.len();
    assert!(na == 28 + 2 * l, "AuEncode output length is not header + 2 bytes per sample");
    // instance B, small stream: compare byte by byte while draining
    let mut b = Rig11::new(cap, cap, &mk);
    let mut pos = 0usize;
    let mut rounds = 0;
    let total_rounds = sched.len() + br;
    while rounds < total_rounds {
        let (f, d) = if rounds < sched.len() { sched[rounds] } else { (usize::MAX, usize::MAX) };
        feed(&b.tx, &input, &mut b.next, f, &[]);
        // drain up to d bytes, comparing with A
        let (rb, tb) = match b.rx.read_buf() {
            Ok(x) => x,
            Err(e) => {
                std::mem::forget(e);
                panic!("read_buf");
            }
        };
        std::mem::forget(tb);
        let mut n = rb.len();
        if n > d {
            n = d;
        }
        for i in 0..n {
            assert!(pos + i < na, "scheduled run produced more output than the one-shot run");
            assert!(rb.slice()[i] == ra.slice()[pos + i], "output byte depends on chunking");
        }
        rb.consume(n);
        pos += n;
        let v = work_once(&mut b.b);
        assert!(v != Verdict::Err);
        rounds += 1;
    }
    assert!(pos + buffered_r(&b.rx) == na || b.next < l, "output length depends on chunking");
    assert!(b.next == l && pos == na, "BOUND: AuEncode B did not finish within the flush rounds");
    witness!("schedule executed and outputs compared");
    std::mem::forget((a, b, input, ra, _t));
}

/// AuDecode in its data state (header already accepted): `nd` symbolic PCM bytes in the
/// scheduled pieces vs. at once.  Also compares with the documented PCM16 conversion.
pub fn au_decode_data(nd: usize, cap_in: usize, cap_out: usize, sched: &[(usize, usize)], br: usize) {
    let input = sym_vec::<u8>(nd);
    let mk = |src: ReadStream<u8>| rustradio::au::verif_access::decoder_in_data_state(src, 8000);
    let mut a = Rig11::new(nd.max(1), nd.max(1), &mk);
    a.flush(&input, &[], 4);
    let mut b = Rig11::new(cap_in, cap_out, &mk);
    for (f, d) in sched {
        let v = b.step(&input, &[], *f, *d);
        assert!(v != Verdict::Err, "work() returned an error on PCM data");
        assert!(b.out.data.len() <= a.out.data.len(), "scheduled run produced more output than the one-shot run");
        for i in 0..b.out.data.len() {
            assert!(b.out.data[i].bits_eq(&a.out.data[i]), "scheduled output is not a prefix of the one-shot output");
        }
    }
    b.flush(&input, &[], br);
    assert!(b.out.data.len() == a.out.data.len(), "output length depends on chunking");
    assert!(a.out.data.len() == nd / 2, "decoded sample count is not floor(bytes/2)");
    for i in 0..a.out.data.len() {
        assert!(b.out.data[i].bits_eq(&a.out.data[i]), "output sample depends on chunking");
        let e = (i16::from_be_bytes([input[2 * i], input[2 * i + 1]]) as f32) / 32767.0;
        assert!(a.out.data[i].bits_eq(&e), "decoded sample differs from big-endian PCM16 / 32767");
    }
    witness!("schedule executed and outputs compared");
    std::mem::forget((a, b, input));
}

/// ZeroCrossing clock recovery (sps 2.0): output independent of chunking / output space.
pub fn zero_crossing(l: usize, cap: usize, sched: &[(usize, usize)], br: usize) {
    let input = sym_vec::<f32>(l);
    let mk = |src: ReadStream<f32>| ZeroCrossing::new(src, 2.0, 0.0);
    let (a, b) = ab_11(&mk, &input, &[], cap, sched, l + 1, 3, br);
    std::mem::forget(input);
    finish(a, b);
}
