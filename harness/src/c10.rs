//! C10: exactly-specified blocks against independent references written from their
//! documentation.  Every function also runs one chunked delivery (C08 schedule) and
//! compares both deliveries with the reference, element-wise and in count.
use crate::blk::*;
use crate::c08::{W8, bits_vec};
use crate::sym::{Bits, SymVal, any, assume};
use crate::witness;
use rustradio::Complex;
use rustradio::blocks::*;
use rustradio::stream::ReadStream;

fn check_ref<O: Copy + Bits>(got: &Collected<O>, expect: &[O], what: &'static str) {
    assert!(got.data.len() == expect.len(), "output count differs from the documented function");
    for i in 0..expect.len() {
        assert!(got.data[i].bits_eq(&expect[i]), "output sample differs from the documented function");
    }
    let _ = what;
}

fn done<O>(a: Collected<O>, b: Collected<O>, e: Vec<O>) {
    witness!("compared with the reference");
    std::mem::forget((a, b, e));
}

pub fn add_const(l: usize, cap: usize, sched: &[(usize, usize)], br: usize) {
    let c: W8 = any();
    let input = sym_vec::<W8>(l);
    let (a, b) = ab_11(&|src| AddConst::new(src, c), &input, &[], cap, sched, l.max(1), 3, br);
    let mut e = Vec::with_capacity(MAXV);
    for x in input.iter() {
        e.push(W8(x.0.wrapping_add(c.0)));
    }
    check_ref(&a, &e, "AddConst");
    check_ref(&b, &e, "AddConst");
    std::mem::forget(input);
    done(a, b, e);
}

pub fn multiply_const(l: usize, cap: usize, sched: &[(usize, usize)], br: usize) {
    let c: W8 = any();
    let input = sym_vec::<W8>(l);
    let (a, b) = ab_11(&|src| MultiplyConst::new(src, c), &input, &[], cap, sched, l.max(1), 3, br);
    let mut e = Vec::with_capacity(MAXV);
    for x in input.iter() {
        e.push(W8(x.0.wrapping_mul(c.0)));
    }
    check_ref(&a, &e, "MultiplyConst");
    check_ref(&b, &e, "MultiplyConst");
    std::mem::forget(input);
    done(a, b, e);
}

pub fn xor_const(l: usize, cap: usize, sched: &[(usize, usize)], br: usize) {
    let c: u8 = any();
    let input = sym_vec::<u8>(l);
    let (a, b) = ab_11(&|src| XorConst::new(src, c), &input, &[], cap, sched, l.max(1), 3, br);
    let mut e = Vec::with_capacity(MAXV);
    for x in input.iter() {
        e.push(*x ^ c);
    }
    check_ref(&a, &e, "XorConst");
    check_ref(&b, &e, "XorConst");
    std::mem::forget(input);
    done(a, b, e);
}

pub fn binary_slicer(l: usize, cap: usize, sched: &[(usize, usize)], br: usize) {
    let input = sym_vec::<f32>(l);
    let (a, b) = ab_11(&|src| BinarySlicer::new(src), &input, &[], cap, sched, l.max(1), 3, br);
    let mut e = Vec::with_capacity(MAXV);
    for x in input.iter() {
        e.push(if *x > 0.0 { 1u8 } else { 0u8 });
    }
    check_ref(&a, &e, "BinarySlicer");
    check_ref(&b, &e, "BinarySlicer");
    std::mem::forget(input);
    done(a, b, e);
}

pub fn complex_to_mag2(l: usize, cap: usize, sched: &[(usize, usize)], br: usize) {
    let input = sym_vec::<Complex>(l);
    let (a, b) = ab_11(&|src| ComplexToMag2::new(src), &input, &[], cap, sched, l.max(1), 3, br);
    let mut e = Vec::with_capacity(MAXV);
    for x in input.iter() {
        e.push(x.re * x.re + x.im * x.im);
    }
    check_ref(&a, &e, "ComplexToMag2");
    check_ref(&b, &e, "ComplexToMag2");
    std::mem::forget(input);
    done(a, b, e);
}

pub fn nrzi(l: usize, cap: usize, sched: &[(usize, usize)], br: usize) {
    let input = bits_vec(l);
    let (a, b) = ab_11(&|src| NrziDecode::new(src), &input, &[], cap, sched, l.max(1), 3, br);
    // "no change = 1, change = 0", previous level initially 0.
    let mut e = Vec::with_capacity(MAXV);
    let mut prev = 0u8;
    for x in input.iter() {
        e.push(if *x == prev { 1u8 } else { 0u8 });
        prev = *x;
    }
    check_ref(&a, &e, "NrziDecode");
    check_ref(&b, &e, "NrziDecode");
    std::mem::forget(input);
    done(a, b, e);
}

pub fn descrambler(l: usize, cap: usize, sched: &[(usize, usize)], br: usize) {
    let mask: u64 = any();
    let seed: u64 = any();
    let len: u8 = any();
    assume(len < 64);
    let input = bits_vec(l);
    let (a, b) = ab_11(&|src| Descrambler::new(src, mask, seed, len), &input, &[], cap, sched, l.max(1), 3, br);
    // Multiplicative (self-synchronising) descrambler, bit by bit: output = input XOR
    // parity of the tapped register bits; the input bit enters the register at position len.
    let mut e = Vec::with_capacity(MAXV);
    let mut reg = seed;
    for x in input.iter() {
        let mut p = 0u8;
        for k in 0..64 {
            p ^= (((reg >> k) & (mask >> k)) & 1) as u8;
        }
        e.push(p ^ *x);
        reg = (reg >> 1) | ((*x as u64) << len);
    }
    check_ref(&a, &e, "Descrambler");
    check_ref(&b, &e, "Descrambler");
    std::mem::forget(input);
    done(a, b, e);
}

pub fn correlate_access_code(l: usize, cap: usize, sched: &[(usize, usize)], br: usize, codelen: usize, allowed: usize) {
    let input = bits_vec(l);
    let code = bits_vec(codelen);
    let mk = |src: ReadStream<u8>| {
        let mut c = Vec::with_capacity(4);
        for x in code.iter() {
            c.push(*x);
        }
        CorrelateAccessCode::new(src, c, allowed)
    };
    let (a, b) = ab_11(&mk, &input, &[], cap, sched, l.max(1), 3, br);
    // out[i] = 1 iff the last `codelen` inputs (zeros before the stream start) differ
    // from the code in at most `allowed` positions.
    let mut e = Vec::with_capacity(MAXV);
    for i in 0..l {
        let mut diffs = 0;
        for k in 0..codelen {
            // window position k corresponds to input index i + 1 - codelen + k
            let idx = i as isize + 1 - codelen as isize + k as isize;
            let v = if idx < 0 { 0 } else { input[idx as usize] };
            if v != code[k] {
                diffs += 1;
            }
        }
        e.push(if diffs <= allowed { 1u8 } else { 0u8 });
    }
    check_ref(&a, &e, "CorrelateAccessCode");
    check_ref(&b, &e, "CorrelateAccessCode");
    std::mem::forget((input, code));
    done(a, b, e);
}

pub fn skip(l: usize, cap: usize, sched: &[(usize, usize)], br: usize, s: usize) {
    let input = sym_vec::<u8>(l);
    let (a, b) = ab_11(&|src| Skip::new(src, s), &input, &[], cap, sched, l.max(1), 4, br);
    let mut e = Vec::with_capacity(MAXV);
    for i in s..l {
        e.push(input[i]);
    }
    check_ref(&a, &e, "Skip");
    check_ref(&b, &e, "Skip");
    std::mem::forget(input);
    done(a, b, e);
}

pub fn delay(l: usize, cap: usize, sched: &[(usize, usize)], br: usize, d: usize) {
    let input = sym_vec::<u8>(l);
    let (a, b) = ab_11(&|src| Delay::new(src, d), &input, &[], cap, sched, l + d + 1, 4, br);
    // d default samples, then the input.
    let mut e = Vec::with_capacity(MAXV);
    for _ in 0..d {
        e.push(0u8);
    }
    for x in input.iter() {
        e.push(*x);
    }
    check_ref(&a, &e, "Delay");
    check_ref(&b, &e, "Delay");
    std::mem::forget(input);
    done(a, b, e);
}

pub fn resampler(l: usize, cap: usize, sched: &[(usize, usize)], br: usize, interp: usize, deci: usize) {
    let input = sym_vec::<u8>(l);
    let mk = |src: ReadStream<u8>| match RationalResampler::new(src, interp, deci) {
        Ok(x) => x,
        Err(e) => {
            std::mem::forget(e);
            panic!("RationalResampler::new failed");
        }
    };
    let (a, b) = ab_11(&mk, &input, &[], cap, sched, l * interp + 1, 3, br);
    // out[j] = in[floor(j*deci/interp)], count = ceil(l*interp/deci)
    let n_out = (l * interp + deci - 1) / deci;
    let mut e = Vec::with_capacity(MAXV);
    for j in 0..n_out {
        e.push(input[j * deci / interp]);
    }
    check_ref(&a, &e, "RationalResampler");
    check_ref(&b, &e, "RationalResampler");
    std::mem::forget(input);
    done(a, b, e);
}

pub fn rtlsdr_decode(l: usize, cap: usize, sched: &[(usize, usize)], br: usize) {
    let input = sym_vec::<u8>(l);
    let (a, b) = ab_11(&|src| RtlSdrDecode::new(src), &input, &[], cap, sched, l.max(1), 3, br);
    // pairs of unsigned bytes -> ((i-127)*0.008, (q-127)*0.008); a trailing odd byte waits.
    let mut e = Vec::with_capacity(MAXV);
    for k in 0..(l / 2) {
        let i = input[2 * k] as f32;
        let q = input[2 * k + 1] as f32;
        e.push(Complex::new((i - 127.0) * 0.008, (q - 127.0) * 0.008));
    }
    check_ref(&a, &e, "RtlSdrDecode");
    check_ref(&b, &e, "RtlSdrDecode");
    std::mem::forget(input);
    done(a, b, e);
}

/// Add / Xor / FloatToComplex: two inputs of different lengths, chunked vs reference.
pub fn two_in(kind: u8, la: usize, lb: usize, cap: usize, sched: &[(usize, usize, usize)], br: usize) {
    let ia = sym_vec::<W8>(la);
    let ib = sym_vec::<W8>(lb);
    let n = if la < lb { la } else { lb };
    let mut e = Vec::with_capacity(MAXV);
    for i in 0..n {
        e.push(if kind == 0 { W8(ia[i].0.wrapping_add(ib[i].0)) } else { W8(ia[i].0 ^ ib[i].0) });
    }
    if kind == 0 {
        let mut r = Rig21::new(cap, cap, &|a, b| Add::<W8, W8, W8>::new(a, b));
        for (fa, fb, d) in sched {
            let v = r.step(&ia, &[], &ib, &[], *fa, *fb, *d);
            assert!(v != Verdict::Err);
        }
        r.flush(&ia, &[], &ib, &[], br);
        check_ref(&r.out, &e, "Add");
        std::mem::forget(r);
    } else {
        let mut r = Rig21::new(cap, cap, &|a, b| Xor::<W8>::new(a, b));
        for (fa, fb, d) in sched {
            let v = r.step(&ia, &[], &ib, &[], *fa, *fb, *d);
            assert!(v != Verdict::Err);
        }
        r.flush(&ia, &[], &ib, &[], br);
        check_ref(&r.out, &e, "Xor");
        std::mem::forget(r);
    }
    witness!("compared with the reference");
    std::mem::forget((ia, ib, e));
}

pub fn float_to_complex(l: usize, cap: usize, sched: &[(usize, usize, usize)], br: usize) {
    let ia = sym_vec::<f32>(l);
    let ib = sym_vec::<f32>(l);
    let mut e = Vec::with_capacity(MAXV);
    for i in 0..l {
        e.push(Complex::new(ia[i], ib[i]));
    }
    let mut r = Rig21::new(cap, cap, &|a, b| FloatToComplex::new(a, b));
    for (fa, fb, d) in sched {
        let v = r.step(&ia, &[], &ib, &[], *fa, *fb, *d);
        assert!(v != Verdict::Err);
    }
    r.flush(&ia, &[], &ib, &[], br);
    assert!(r.out.data.len() == l, "output count differs from the documented function");
    for i in 0..l {
        assert!(r.out.data[i].exact_eq(&e[i]), "output sample differs from the documented function");
    }
    witness!("compared with the reference");
    std::mem::forget((r, ia, ib, e));
}

pub fn tee(l: usize, cap: usize, sched: &[(usize, usize, usize)], br: usize) {
    let input = sym_vec::<u8>(l);
    let mut r = Rig12::new(cap, cap, &|s| Tee::<u8>::new(s));
    for (f, d1, d2) in sched {
        let v = r.step(&input, &[], *f, *d1, *d2);
        assert!(v != Verdict::Err);
    }
    r.flush(&input, &[], br);
    assert!(r.out1.data.len() == l && r.out2.data.len() == l, "tee output count differs from the input count");
    for i in 0..l {
        assert!(r.out1.data[i] == input[i], "tee output 1 differs from the input");
        assert!(r.out2.data[i] == input[i], "tee output 2 differs from the input");
    }
    witness!("compared with the reference");
    std::mem::forget((r, input));
}

// ---- FftStream framing with a stand-in transform ---------------------------------
/// Stand-in for the FFT engine: reverses each frame and negates it, so that every frame
/// boundary is visible in the output.
pub struct FakeFft {
    pub n: usize,
}
impl rustfft::Length for FakeFft {
    fn len(&self) -> usize {
        self.n
    }
}
impl rustfft::Direction for FakeFft {
    fn fft_direction(&self) -> rustfft::FftDirection {
        rustfft::FftDirection::Forward
    }
}
impl rustfft::Fft<f32> for FakeFft {
    fn process(&self, buffer: &mut [Complex]) {
        // whole frames only, as rustfft requires
        assert!(buffer.len() % self.n == 0, "engine called on a partial frame");
        let frames = buffer.len() / self.n;
        for f in 0..frames {
            let base = f * self.n;
            let mut i = 0;
            while i < self.n / 2 {
                let a = buffer[base + i];
                buffer[base + i] = buffer[base + self.n - 1 - i];
                buffer[base + self.n - 1 - i] = a;
                i += 1;
            }
            for i in 0..self.n {
                let v = buffer[base + i];
                buffer[base + i] = Complex::new(-v.re, -v.im);
            }
        }
    }
    fn process_with_scratch(&self, buffer: &mut [Complex], _scratch: &mut [Complex]) {
        self.process(buffer)
    }
    fn process_outofplace_with_scratch(&self, input: &mut [Complex], output: &mut [Complex], _scratch: &mut [Complex]) {
        for i in 0..input.len() {
            output[i] = input[i];
        }
        self.process(output)
    }
    fn get_inplace_scratch_len(&self) -> usize {
        0
    }
    fn get_outofplace_scratch_len(&self) -> usize {
        0
    }
}

/// FftStream framing: consumes and produces whole frames of `size`, each frame transformed
/// on its own, independent of chunking and output space.
pub fn fft_stream(size: usize, l: usize, cap: usize, sched: &[(usize, usize)], br: usize) {
    let input = sym_vec::<Complex>(l);
    let mk = |src: ReadStream<Complex>| {
        rustradio::fft_stream::verif_access::with_engine(src, size, std::sync::Arc::new(FakeFft { n: size }))
    };
    let (a, b) = ab_11(&mk, &input, &[], cap, sched, l.max(1), 4, br);
    let frames = l / size;
    let mut e = Vec::with_capacity(MAXV);
    for f in 0..frames {
        for i in 0..size {
            let v = input[f * size + (size - 1 - i)];
            e.push(Complex::new(-v.re, -v.im));
        }
    }
    check_ref(&a, &e, "FftStream");
    check_ref(&b, &e, "FftStream");
    std::mem::forget(input);
    done(a, b, e);
}
