//! C04: end-of-stream decisions of the real `stream.rs` under a symbolic cooperative
//! schedule of the peer ("commit/push, then drop its end"), injected at every
//! lock/unlock scheduling point of the stand-in mutex.
use crate::sym::{any, assume};
use crate::witness;
use rustradio::circular_buffer::verif_access as acc;
use rustradio::stream::verif_access::new_stream_sized;
use rustradio::stream::{
    NCReadStream, NCWriteStream, ReadStream, StreamWait, WriteStream, new_nocopy_stream,
};
use std::sync::atomic::{AtomicUsize, Ordering};

// Address of the peer state (non-zero initial pattern: see hooks/verif_mod.rs).
const BASE: usize = 0x6b27_0000_0000_0101;
static PEER: AtomicUsize = AtomicUsize::new(BASE);
fn set_peer<T>(p: *mut T) {
    PEER.store((p as usize).wrapping_add(BASE), Ordering::SeqCst);
}
fn peer<T>() -> *mut T {
    PEER.load(Ordering::SeqCst).wrapping_sub(BASE) as *mut T
}

/// Writer-side peer of a sample stream: [commit k, drop].
struct PeerW {
    tx: Option<WriteStream<u8>>,
    step: u8,
    k: usize,
    busy: bool,
    committed: usize,
}
fn env_w(_id: u32) {
    // SAFETY: set_peer() was called with a live PeerW; cooperative single thread.
    let p = unsafe { &mut *peer::<PeerW>() };
    if p.busy {
        return; // peer steps are atomic ring operations (C03): not re-entrant
    }
    p.busy = true;
    if p.step == 0 && any::<bool>() {
        let tx = p.tx.as_ref().unwrap();
        // A thread needing the state lock while the observed thread holds it is blocked.
        if !acc::is_locked(tx.verif_ring()) {
            if p.k > 0 {
                match tx.write_buf() {
                    Ok(w) => {
                        if w.len() >= p.k {
                            w.produce(p.k, &[]);
                            p.committed = p.k;
                        } else {
                            drop(w);
                        }
                    }
                    Err(e) => std::mem::forget(e),
                }
            }
            p.step = 1;
        }
    }
    if p.step == 1 && any::<bool>() {
        let tx = p.tx.take().unwrap();
        drop(tx);
        p.step = 2;
    }
    p.busy = false;
}

fn prefill(tx: &WriteStream<u8>, n: usize) {
    if n == 0 {
        return;
    }
    match tx.write_buf() {
        Ok(w) => w.produce(n, &[]),
        Err(e) => {
            std::mem::forget(e);
            panic!("harness: write_buf");
        }
    }
}

fn buffered(rx: &ReadStream<u8>) -> usize {
    acc::state(rx.verif_ring()).2
}

pub const D_WAIT: u8 = 0;
pub const D_EOF: u8 = 1;
pub const D_CLOSED: u8 = 2;

/// Reader-side decision against a concurrent writer.
/// `pre_step`: how far the writer's script has already advanced before the call (0,1,2).
pub fn reader_decision(cap: usize, offset: usize, initial: usize, need: usize, k: usize, decision: u8, pre_step: u8) {
    let (tx, rx) = new_stream_sized::<u8>(cap);
    // move the ring positions to `offset` first so that buffered data can straddle the wrap point
    if offset > 0 {
        prefill(&tx, offset);
        acc::consume(rx.verif_ring(), offset);
    }
    prefill(&tx, initial);
    let mut p = PeerW {
        tx: Some(tx),
        step: 0,
        k,
        busy: false,
        committed: 0,
    };
    set_peer(&mut p as *mut PeerW);
    // deterministic prefix of the peer script
    if pre_step >= 1 {
        if k > 0 {
            prefill(p.tx.as_ref().unwrap(), k);
            p.committed = k;
        }
        p.step = 1;
    }
    if pre_step >= 2 {
        drop(p.tx.take().unwrap());
        p.step = 2;
    }
    rustradio::verif::set_yield_hook(Some(env_w));
    rustradio::verif::yield_point(0); // the peer may also act before the call starts
    let verdict = match decision {
        D_WAIT => rx.wait(need),
        D_EOF => rx.eof(),
        _ => rx.closed(),
    };
    rustradio::verif::set_yield_hook(None);
    let gone = p.step == 2;
    let have = buffered(&rx);
    // nothing committed is ever discarded by a decision
    assert!(have == initial + p.committed, "committed samples disappeared across an end-of-stream decision");
    if verdict {
        assert!(gone, "true end-of-stream verdict while the writer is still there");
        match decision {
            D_WAIT => assert!(have < need, "told 'can never be satisfied' although enough committed samples are buffered"),
            D_EOF => assert!(have == 0, "eof() true although committed samples are buffered"),
            _ => {}
        }
    }
    // bounded arrival: writer already gone before the call => the verdict is exact
    if pre_step == 2 {
        match decision {
            D_WAIT => assert!(verdict == (have < need), "writer gone: wait() must say true iff the remainder is insufficient"),
            D_EOF => assert!(verdict == (have == 0), "writer gone: eof() must say true iff drained"),
            _ => assert!(verdict, "writer gone: closed() must be true"),
        }
    }
    witness!("decision taken");
    witness!(verdict, "OPTIONAL: a true verdict is reachable");
    std::mem::forget(rx);
    std::mem::forget(p);
}

/// Reader-side peer of a sample stream: [consume m, drop].
struct PeerR {
    rx: Option<ReadStream<u8>>,
    step: u8,
    m: usize,
    busy: bool,
}
fn env_r(_id: u32) {
    // SAFETY: see env_w.
    let p = unsafe { &mut *peer::<PeerR>() };
    if p.busy {
        return;
    }
    p.busy = true;
    if p.step == 0 && any::<bool>() {
        let rx = p.rx.as_ref().unwrap();
        if !acc::is_locked(rx.verif_ring()) {
            // the reader's consume (the real critical section); its window acquisition is
            // irrelevant to the writer's decision
            if acc::state(rx.verif_ring()).2 >= p.m {
                acc::consume(rx.verif_ring(), p.m);
            }
            p.step = 1;
        }
    }
    if p.step == 1 && any::<bool>() {
        drop(p.rx.take().unwrap());
        p.step = 2;
    }
    p.busy = false;
}

/// Writer-side decision (wait_for_write / closed) against a concurrent reader.
pub fn writer_decision(cap: usize, offset: usize, initial: usize, need: usize, m: usize, decision: u8, pre_step: u8) {
    let (tx, rx) = new_stream_sized::<u8>(cap);
    if offset > 0 {
        prefill(&tx, offset);
        acc::consume(rx.verif_ring(), offset);
    }
    prefill(&tx, initial);
    let mut p = PeerR {
        rx: Some(rx),
        step: 0,
        m,
        busy: false,
    };
    set_peer(&mut p as *mut PeerR);
    if pre_step >= 1 {
        acc::consume(p.rx.as_ref().unwrap().verif_ring(), m);
        p.step = 1;
    }
    if pre_step >= 2 {
        drop(p.rx.take().unwrap());
        p.step = 2;
    }
    rustradio::verif::set_yield_hook(Some(env_r));
    rustradio::verif::yield_point(0);
    let verdict = match decision {
        D_WAIT => tx.wait(need),
        _ => tx.closed(),
    };
    rustradio::verif::set_yield_hook(None);
    let gone = p.step == 2;
    let free = tx.free();
    if verdict {
        assert!(gone, "writer told to give up while its reader is still there");
    }
    if pre_step == 2 {
        match decision {
            D_WAIT => assert!(verdict == (free < need), "reader gone: wait() must release the writer iff space is insufficient"),
            _ => assert!(verdict, "reader gone: closed() must be true"),
        }
    }
    witness!("decision taken");
    std::mem::forget(tx);
    std::mem::forget(p);
}

/// Writer-side peer of a packet stream: [push, drop].
struct PeerNW {
    tx: Option<NCWriteStream<u32>>,
    step: u8,
    push: bool,
    busy: bool,
    pushed: usize,
}
fn env_nw(_id: u32) {
    // SAFETY: see env_w.
    let p = unsafe { &mut *peer::<PeerNW>() };
    if p.busy {
        return;
    }
    p.busy = true;
    if p.step == 0 && any::<bool>() {
        let tx = p.tx.as_ref().unwrap();
        if !tx.verif_locked() {
            if p.push {
                tx.push(7, &[]);
                p.pushed = 1;
            }
            p.step = 1;
        }
    }
    if p.step == 1 && any::<bool>() {
        drop(p.tx.take().unwrap());
        p.step = 2;
    }
    p.busy = false;
}

/// Packet-stream reader decision against a concurrent writer.
pub fn nc_reader_decision(initial: usize, need: usize, push: bool, decision: u8, pre_step: u8) {
    let (tx, rx) = new_nocopy_stream::<u32>();
    for _ in 0..initial {
        tx.push(1, &[]);
    }
    let mut p = PeerNW {
        tx: Some(tx),
        step: 0,
        push,
        busy: false,
        pushed: 0,
    };
    set_peer(&mut p as *mut PeerNW);
    if pre_step >= 1 {
        if push {
            p.tx.as_ref().unwrap().push(7, &[]);
            p.pushed = 1;
        }
        p.step = 1;
    }
    if pre_step >= 2 {
        drop(p.tx.take().unwrap());
        p.step = 2;
    }
    rustradio::verif::set_yield_hook(Some(env_nw));
    rustradio::verif::yield_point(0);
    let verdict = match decision {
        D_WAIT => rx.wait(need),
        D_EOF => rx.eof(),
        _ => rx.closed(),
    };
    rustradio::verif::set_yield_hook(None);
    let gone = p.step == 2;
    let have = rx.verif_len();
    assert!(have == initial + p.pushed, "queued packets disappeared across an end-of-stream decision");
    if verdict {
        assert!(gone, "true end-of-stream verdict while the packet writer is still there");
        match decision {
            D_WAIT => assert!(have < need, "packet wait(): 'never satisfied' although enough packets are queued"),
            D_EOF => assert!(have == 0, "packet eof() true although a packet is queued"),
            _ => {}
        }
    }
    if pre_step == 2 {
        match decision {
            D_WAIT => assert!(verdict == (have < need), "packet writer gone: wait() must be exact"),
            D_EOF => assert!(verdict == (have == 0), "packet writer gone: eof() must be exact"),
            _ => assert!(verdict, "packet writer gone: closed() must be true"),
        }
    }
    witness!("decision taken");
    std::mem::forget(rx);
    std::mem::forget(p);
}

/// Packet-stream writer decision (wait/closed) with the reader alive or gone.
pub fn nc_writer_decision(reader_gone: bool, decision: u8) {
    let (tx, rx) = new_nocopy_stream::<u32>();
    let mut keep = Some(rx);
    if reader_gone {
        drop(keep.take().unwrap());
    }
    let verdict = match decision {
        D_WAIT => tx.wait(1),
        _ => tx.closed(),
    };
    assert!(verdict == reader_gone, "packet writer verdict must equal 'reader gone'");
    witness!("decision taken");
    std::mem::forget(tx);
    std::mem::forget(keep);
}
