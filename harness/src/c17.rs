//! C17 (program side only): open mode -> OpenOptions flags, and write-before-consume.
//! The kernel side (real files, SIGKILL, page cache) is outside the claim.
use crate::blk::*;
use crate::sym::{any, assume};
use crate::witness;
use rustradio::file_sink::{FileSink, Mode, NoCopyFileSink};
use rustradio::stream::verif_access::new_stream_sized;
use rustradio::stream::{NCWriteStream, new_nocopy_stream};
use std::fs::{File, OpenOptions};
use std::os::fd::FromRawFd;
use std::path::Path;
use std::sync::atomic::{AtomicUsize, Ordering};

// ghost record of the OpenOptions setters (bit set: value true was passed)
const FB: usize = 0x7117_0000_0000_0000;
static FLAGS: AtomicUsize = AtomicUsize::new(FB);
pub const F_READ: usize = 1;
pub const F_WRITE: usize = 2;
pub const F_APPEND: usize = 4;
pub const F_CREATE: usize = 8;
pub const F_CREATE_NEW: usize = 16;
pub const F_TRUNCATE: usize = 32;
pub const F_OPENED: usize = 64;
fn rec(bit: usize, v: bool) {
    let cur = FLAGS.load(Ordering::SeqCst);
    let cur = if v { cur | bit } else { cur & !bit };
    FLAGS.store(cur, Ordering::SeqCst);
}
pub fn read_stub(o: &mut OpenOptions, v: bool) -> &mut OpenOptions {
    rec(F_READ, v);
    o
}
pub fn write_stub(o: &mut OpenOptions, v: bool) -> &mut OpenOptions {
    rec(F_WRITE, v);
    o
}
pub fn append_stub(o: &mut OpenOptions, v: bool) -> &mut OpenOptions {
    rec(F_APPEND, v);
    o
}
pub fn create_stub(o: &mut OpenOptions, v: bool) -> &mut OpenOptions {
    rec(F_CREATE, v);
    o
}
pub fn create_new_stub(o: &mut OpenOptions, v: bool) -> &mut OpenOptions {
    rec(F_CREATE_NEW, v);
    o
}
pub fn truncate_stub(o: &mut OpenOptions, v: bool) -> &mut OpenOptions {
    rec(F_TRUNCATE, v);
    o
}
pub fn open_stub(_o: &OpenOptions, _p: &Path) -> std::io::Result<File> {
    rec(F_OPENED, true);
    // SAFETY: never used for real I/O (File::write is stubbed too) and never dropped.
    Ok(unsafe { File::from_raw_fd(3) })
}

pub const M_CREATE: u8 = 0;
pub const M_OVERWRITE: u8 = 1;
pub const M_APPEND: u8 = 2;

/// (a) the set of open flags each documented mode must translate to.
pub fn mode_flags(mode: u8, nocopy: bool) {
    FLAGS.store(FB, Ordering::SeqCst);
    let m = match mode {
        M_CREATE => Mode::Create,
        M_OVERWRITE => Mode::Overwrite,
        _ => Mode::Append,
    };
    if nocopy {
        let (tx, rx): (NCWriteStream<String>, _) = new_nocopy_stream();
        match NoCopyFileSink::<String>::new(rx, "f", m) {
            Ok(s) => std::mem::forget(s),
            Err(e) => {
                std::mem::forget(e);
                panic!("constructor failed although open succeeded");
            }
        }
        std::mem::forget(tx);
    } else {
        let (tx, rx) = new_stream_sized::<u8>(2);
        match FileSink::<u8>::new(rx, "f", m) {
            Ok(s) => std::mem::forget(s),
            Err(e) => {
                std::mem::forget(e);
                panic!("constructor failed although open succeeded");
            }
        }
        std::mem::forget(tx);
    }
    let f = FLAGS.load(Ordering::SeqCst) - FB;
    assert!(f & F_OPENED != 0, "the file was never opened");
    assert!(f & F_READ == 0, "a sink must not open for reading");
    match mode {
        M_CREATE => {
            // "Create a new file. Fail if file already exists."
            assert!(f & F_CREATE_NEW != 0 && f & F_WRITE != 0, "Mode::Create must use write + create_new");
            assert!(f & (F_APPEND | F_TRUNCATE) == 0, "Mode::Create must not append or truncate");
        }
        M_OVERWRITE => {
            // "Overwrite existing file, or create a new file if it doesn't exist."
            assert!(f & F_WRITE != 0 && f & F_CREATE != 0 && f & F_TRUNCATE != 0, "Mode::Overwrite must use write + create + truncate");
            assert!(f & (F_APPEND | F_CREATE_NEW) == 0, "Mode::Overwrite must not append or create_new");
        }
        _ => {
            // "Append to existing file, or create a new file if it doesn't exist."
            assert!(f & F_APPEND != 0, "Mode::Append must open for append");
            assert!(f & F_CREATE != 0, "Mode::Append must create the file if it doesn't exist (documented), but never asks for it");
            assert!(f & (F_TRUNCATE | F_CREATE_NEW) == 0, "Mode::Append must keep existing content");
        }
    }
    witness!("flags checked");
}

// ---- (b) ghost file: bytes accepted by write(2), short writes and failures symbolic
const LB: usize = 0x7117_1000_0000_0000;
static LOG_LEN: AtomicUsize = AtomicUsize::new(LB);
static CONSUMED_BYTES: AtomicUsize = AtomicUsize::new(LB + 0x100);
static BAD_ORDER: AtomicUsize = AtomicUsize::new(LB + 0x200);
static mut LOG: [u8; 32] = [0xA5; 32];
static mut CHUNKS: [usize; 8] = [0x21; 8];
static WCALL: AtomicUsize = AtomicUsize::new(LB + 0x300);

pub fn file_write_stub(_f: &mut File, buf: &[u8]) -> std::io::Result<usize> {
    let fail: bool = any();
    if fail {
        return Err(std::io::Error::from_raw_os_error(5));
    }
    // how many bytes each write(2) accepts is a size: enumerated per instance (CHUNKS)
    let c = WCALL.load(Ordering::SeqCst) - (LB + 0x300);
    WCALL.store(LB + 0x300 + c + 1, Ordering::SeqCst);
    // SAFETY: single-threaded harness.
    let mut k = unsafe { CHUNKS[if c < 8 { c } else { 7 }] };
    if k > buf.len() {
        k = buf.len();
    }
    if k == 0 {
        k = 1;
    }
    let len = LOG_LEN.load(Ordering::SeqCst) - LB;
    assert!(len + k <= 32, "BOUND: ghost file too small");
    for i in 0..k {
        // SAFETY: single-threaded harness; index checked above.
        unsafe { LOG[len + i] = buf[i] };
    }
    LOG_LEN.store(LB + len + k, Ordering::SeqCst);
    Ok(k)
}
pub fn file_flush_stub(_f: &mut File) -> std::io::Result<()> {
    Ok(())
}

fn on_activity(kind: u32, n: usize) {
    if kind == rustradio::verif::CONSUME {
        // at the moment samples are acknowledged, their bytes must already be in the file
        let c = CONSUMED_BYTES.load(Ordering::SeqCst) - (LB + 0x100) + n * 4;
        CONSUMED_BYTES.store(LB + 0x100 + c, Ordering::SeqCst);
        if LOG_LEN.load(Ordering::SeqCst) - LB < c {
            BAD_ORDER.store(LB + 0x200 + 1, Ordering::SeqCst);
        }
    }
}

/// Stream sink (T = u32, 4 bytes little-endian): `n` symbolic samples in the window.
pub fn write_before_consume(n: usize, chunks: &[usize]) {
    for i in 0..8 {
        // SAFETY: single-threaded harness.
        unsafe { CHUNKS[i] = if i < chunks.len() { chunks[i] } else { 64 } };
    }
    WCALL.store(LB + 0x300, Ordering::SeqCst);
    FLAGS.store(FB, Ordering::SeqCst);
    LOG_LEN.store(LB, Ordering::SeqCst);
    CONSUMED_BYTES.store(LB + 0x100, Ordering::SeqCst);
    BAD_ORDER.store(LB + 0x200, Ordering::SeqCst);
    let (tx, rx) = new_stream_sized::<u32>(n.max(1));
    let data = sym_vec::<u32>(n);
    let mut next = 0;
    feed(&tx, &data, &mut next, usize::MAX, &[]);
    let mut sink = match FileSink::<u32>::new(rx, "f", Mode::Overwrite) {
        Ok(s) => s,
        Err(e) => {
            std::mem::forget(e);
            panic!("constructor failed");
        }
    };
    rustradio::verif::set_activity_hook(Some(on_activity));
    let v = work_once(&mut sink);
    rustradio::verif::set_activity_hook(None);
    let len = LOG_LEN.load(Ordering::SeqCst) - LB;
    let consumed = (CONSUMED_BYTES.load(Ordering::SeqCst) - (LB + 0x100)) / 4;
    assert!(BAD_ORDER.load(Ordering::SeqCst) == LB + 0x200, "samples were consumed before their bytes were written");
    // the file is always a prefix of the serialised stream
    for i in 0..len {
        // SAFETY: single-threaded harness.
        let b = unsafe { LOG[i] };
        assert!(i / 4 < n && b == (data[i / 4] >> (8 * (i % 4))) as u8, "file content is not a prefix of the little-endian serialisation");
    }
    match v {
        Verdict::Err => assert!(consumed == 0, "work() failed but samples were consumed"),
        Verdict::Again => {
            assert!(consumed == n && len == 4 * n, "work() returned Ok but not every consumed sample is in the file");
        }
        Verdict::WaitStream(_, _) => assert!(n == 0),
        _ => panic!("unexpected verdict"),
    }
    witness!("ordering checked");
    witness!(v == Verdict::Again, "OPTIONAL: successful write reachable");
    witness!(v == Verdict::Err, "OPTIONAL: failing write reachable");
    std::mem::forget((sink, tx, data));
}
