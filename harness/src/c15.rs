//! C15: input content can never crash a block, decoder or parser.  Every input byte /
//! bit / float is symbolic; CBMC's built-in checks (panic, overflow, bounds, unwinding)
//! are the oracle.  `Verdict::Err` (an error value) is an allowed outcome.
use crate::blk::*;
use crate::sym::{any, assume};
use crate::witness;
use rustradio::au::AuDecode;
use rustradio::blocks::*;
use rustradio::hdlc_deframer::HdlcDeframer;
use rustradio::stream::verif_access::new_stream_sized;
use rustradio::stream::{NCWriteStream, new_nocopy_stream};

fn be(v: u32, out: &mut Vec<u8>) {
    out.push((v >> 24) as u8);
    out.push((v >> 16) as u8);
    out.push((v >> 8) as u8);
    out.push(v as u8);
}

/// AuDecode on a header whose data-offset field is `offset` (a size, hence concrete) and
/// whose every other byte is symbolic; `tail` data bytes follow.  `piece` = bytes per feed.
pub fn au_decode(offset: u32, sym_magic: bool, tail: usize, piece: usize, works: usize) {
    let mut bytes: Vec<u8> = Vec::with_capacity(64);
    if sym_magic {
        be(any(), &mut bytes);
    } else {
        be(0x2e736e64, &mut bytes);
    }
    be(offset, &mut bytes);
    let rest = if offset >= 8 { (offset - 8) as usize } else { 0 };
    for _ in 0..rest {
        bytes.push(any::<u8>());
    }
    for _ in 0..tail {
        bytes.push(any::<u8>());
    }
    let total = bytes.len();
    let (tx, rxs) = new_stream_sized::<u8>(48);
    set_cap(8);
    let bitrate: u32 = any();
    let (mut d, rx) = AuDecode::new(rxs, bitrate);
    let mut next = 0;
    let mut out = Collected::new();
    for _ in 0..works {
        feed(&tx, &bytes, &mut next, piece, &[]);
        let v = work_once(&mut d);
        if v == Verdict::Err {
            break; // malformed header reported as an error value: fine
        }
        drain(&rx, usize::MAX, &mut out);
    }
    let _ = total;
    witness!("decoder survived");
    std::mem::forget((d, rx, tx, out, bytes));
}

/// HdlcDeframer on `n` arbitrary bits.
pub fn hdlc(n: usize, min_size: usize, max_size: usize, checksum: bool, fix: bool) {
    let mut bits = Vec::with_capacity(n + 1);
    for _ in 0..n {
        let b: u8 = any();
        assume(b <= 1);
        bits.push(b);
    }
    let (tx, rxs) = new_stream_sized::<u8>(n.max(1));
    let (mut d, out) = HdlcDeframer::new(rxs, min_size, max_size);
    d.set_checksum(checksum);
    d.set_fix_bits(fix);
    let mut next = 0;
    feed(&tx, &bits, &mut next, usize::MAX, &[]);
    let v = work_once(&mut d);
    let _ = v;
    witness!("deframer survived");
    std::mem::forget((d, out, tx, bits));
}

/// Midpointer on a burst of `n` arbitrary floats (NaN, infinities, constant bursts...).
pub fn midpointer(n: usize) {
    let (tx, rx): (NCWriteStream<Vec<f32>>, _) = new_nocopy_stream();
    let v = sym_vec::<f32>(n);
    tx.push(v, &[]);
    let (mut b, out) = rustradio::wpcr::Midpointer::new(rx);
    let r = work_once(&mut b);
    let _ = r;
    witness!("midpointer survived");
    std::mem::forget((b, out, tx));
}

/// VecToStream on packets of the given lengths (0..cap+1) with arbitrary content.
pub fn vec_to_stream(l1: usize, l2: usize, cap: usize) {
    set_cap(cap);
    let (tx, nrx): (NCWriteStream<Vec<u8>>, _) = new_nocopy_stream();
    tx.push(sym_vec::<u8>(l1), &[]);
    tx.push(sym_vec::<u8>(l2), &[]);
    let (mut b, rx) = VecToStream::<u8>::new(nrx);
    let mut out = Collected::new();
    for _ in 0..4 {
        let v = work_once(&mut b);
        let _ = v;
        drain(&rx, usize::MAX, &mut out);
    }
    witness!("converter survived");
    std::mem::forget((b, rx, tx, out));
}

/// ZeroCrossing on `n` arbitrary floats, fed in two pieces, small output.
pub fn zero_crossing(n: usize, split: usize, cap: usize) {
    let input = sym_vec::<f32>(n);
    let (tx, rxs) = new_stream_sized::<f32>(n.max(1));
    set_cap(cap);
    let (mut b, rx) = ZeroCrossing::new(rxs, 2.0, 0.0);
    let mut next = 0;
    let mut out = Collected::new();
    feed(&tx, &input, &mut next, split, &[]);
    let _ = work_once(&mut b);
    drain(&rx, 1, &mut out);
    feed(&tx, &input, &mut next, usize::MAX, &[]);
    let _ = work_once(&mut b);
    drain(&rx, usize::MAX, &mut out);
    let _ = work_once(&mut b);
    witness!("clock recovery survived");
    std::mem::forget((b, rx, tx, out, input));
}
