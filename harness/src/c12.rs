//! C12: blocks carry tags forward exactly once, at the corresponding output sample;
//! tag-adding blocks add them on exactly the specified samples.
use crate::blk::*;
use crate::c08::bits_vec;
use crate::sym::{Bits, SymVal, any, assume};
use crate::witness;
use rustradio::blocks::*;
use rustradio::stream::{NCWriteStream, ReadStream, new_nocopy_stream};

/// An expected output tag.
#[derive(Clone, Copy)]
pub struct ETag {
    pub abs: usize,
    pub k0: u8,
    pub k1: u8,
    pub klen: usize,
    pub ksum: u32,
    pub kind: u8,
    pub val: u64,
}
pub fn etag(abs: usize, key: &str, kind: u8, val: u64) -> ETag {
    let k = key.as_bytes();
    ETag { abs, k0: k[0], k1: if k.len() > 1 { k[k.len() - 1] } else { 0 }, klen: k.len(), ksum: key_sum(k), kind, val }
}

fn same(o: &OTag, e: &ETag) -> bool {
    o.abs == e.abs && o.ksum == e.ksum && o.klen == e.klen && o.kind == e.kind && o.val == e.val
}

/// Multiset equality: every expected tag is delivered exactly as often as expected,
/// and nothing else is delivered.
pub fn check_tags<O>(got: &Collected<O>, expect: &[ETag]) {
    assert!(got.tags.len() == expect.len(), "number of delivered tags differs (lost or duplicated tag)");
    for e in expect.iter() {
        let mut want = 0;
        for f in expect.iter() {
            if f.abs == e.abs && f.ksum == e.ksum && f.klen == e.klen && f.kind == e.kind && f.val == e.val {
                want += 1;
            }
        }
        let mut have = 0;
        for o in got.tags.iter() {
            if same(o, e) {
                have += 1;
            }
        }
        assert!(have == want, "a tag is not delivered exactly once on its output sample");
    }
}

/// Input tags with symbolic identity at the given absolute positions.
pub fn in_tags(pos: &[usize]) -> Vec<ATag> {
    let mut v = Vec::with_capacity(4);
    for p in pos {
        v.push(ATag { abs: *p, key: any(), val: any() });
    }
    v
}
fn expect_of(t: &ATag, abs: usize) -> ETag {
    etag(abs, t.key_str(), 1, t.val)
}

fn finish<O>(a: Collected<O>, b: Collected<O>) {
    witness!("tags compared");
    std::mem::forget((a, b));
}
fn finish1<O>(b: Collected<O>) {
    witness!("tags compared");
    std::mem::forget(b);
}

/// One-to-one sync block (macro-generated work): same index.
pub fn sync_identity(l: usize, cap: usize, sched: &[(usize, usize)], br: usize, tagpos: &[usize]) {
    let c: u8 = any();
    let input = sym_vec::<u8>(l);
    let tags = in_tags(tagpos);
    let b = run_b_11(&|src| XorConst::new(src, c), &input, &tags, cap, sched, br);
    let mut e = Vec::with_capacity(4);
    for t in tags.iter() {
        e.push(expect_of(t, t.abs));
    }
    check_tags(&b, &e);
    assert!(b.data.len() == l, "sync block lost or duplicated samples");
    std::mem::forget((input, tags, e));
    finish1(b);
}

/// Skip: tags of samples after the skipped prefix move down by `s`.
pub fn skip(l: usize, cap: usize, sched: &[(usize, usize)], br: usize, s: usize, tagpos: &[usize]) {
    let input = sym_vec::<u8>(l);
    let tags = in_tags(tagpos);
    let b = run_b_11(&|src| Skip::new(src, s), &input, &tags, cap, sched, br);
    let mut e = Vec::with_capacity(4);
    for t in tags.iter() {
        if t.abs >= s {
            e.push(expect_of(t, t.abs - s));
        }
    }
    check_tags(&b, &e);
    std::mem::forget((input, tags, e));
    finish1(b);
}

/// Delay: shifted by the delay.
pub fn delay(l: usize, cap: usize, sched: &[(usize, usize)], br: usize, d: usize, tagpos: &[usize]) {
    let input = sym_vec::<u8>(l);
    let tags = in_tags(tagpos);
    let b = run_b_11(&|src| Delay::new(src, d), &input, &tags, cap, sched, br);
    let mut e = Vec::with_capacity(4);
    for t in tags.iter() {
        e.push(expect_of(t, t.abs + d));
    }
    check_tags(&b, &e);
    assert!(b.data.len() == l + d, "Delay output count differs from delay + input");
    std::mem::forget((input, tags, e));
    finish1(b);
}

/// Tee: both outputs, same index.
pub fn tee(l: usize, cap: usize, sched: &[(usize, usize, usize)], br: usize, tagpos: &[usize]) {
    let input = sym_vec::<u8>(l);
    let tags = in_tags(tagpos);
    let mut r = Rig12::new(cap, cap, &|s| Tee::<u8>::new(s));
    for (f, d1, d2) in sched {
        let v = r.step(&input, &tags, *f, *d1, *d2);
        assert!(v != Verdict::Err);
    }
    r.flush(&input, &tags, br);
    let mut e = Vec::with_capacity(4);
    for t in tags.iter() {
        e.push(expect_of(t, t.abs));
    }
    check_tags(&r.out1, &e);
    check_tags(&r.out2, &e);
    witness!("tags compared");
    std::mem::forget((r, input, tags, e));
}

/// Xor of two streams: tags of the first input only, same index.
pub fn two_in_first(l: usize, cap: usize, sched: &[(usize, usize, usize)], br: usize, tagpos_a: &[usize], tagpos_b: &[usize]) {
    let ia = sym_vec::<u8>(l);
    let ib = sym_vec::<u8>(l);
    let ta = in_tags(tagpos_a);
    let tb = in_tags(tagpos_b);
    let mut r = Rig21::new(cap, cap, &|a, b| Xor::<u8>::new(a, b));
    for (fa, fb, d) in sched {
        let v = r.step(&ia, &ta, &ib, &tb, *fa, *fb, *d);
        assert!(v != Verdict::Err);
    }
    r.flush(&ia, &ta, &ib, &tb, br);
    let mut e = Vec::with_capacity(4);
    for t in ta.iter() {
        e.push(expect_of(t, t.abs));
    }
    check_tags(&r.out, &e);
    witness!("tags compared");
    std::mem::forget((r, ia, ib, ta, tb, e));
}

/// CorrelateAccessCodeTag: input tags kept at the same index; a tag "s" = U64(diffs) added
/// on every sample where the last `codelen` inputs match the code within `allowed`.
pub fn cac_tag(l: usize, cap: usize, sched: &[(usize, usize)], br: usize, codelen: usize, allowed: usize, tagpos: &[usize], bits: &[u8], codebits: &[u8]) {
    // The number of added tags is a size, so the bit pattern and the code are concrete per
    // instance (enumerated); the identity of the input tags stays symbolic.
    let mut input = Vec::with_capacity(l.max(1));
    for i in 0..l {
        input.push(bits[i]);
    }
    let mut code = Vec::with_capacity(codelen.max(1));
    for i in 0..codelen {
        code.push(codebits[i]);
    }
    let tags = in_tags(tagpos);
    let mk = |src: ReadStream<u8>| {
        let mut c = Vec::with_capacity(4);
        for x in code.iter() {
            c.push(*x);
        }
        CorrelateAccessCodeTag::new(src, c, "s", allowed)
    };
    let b = run_b_11(&mk, &input, &tags, cap, sched, br);
    let a = &b;
    let mut e = Vec::with_capacity(MAXV);
    for t in tags.iter() {
        e.push(expect_of(t, t.abs));
    }
    for i in 0..l {
        let mut diffs = 0usize;
        for k in 0..codelen {
            let idx = i as isize + 1 - codelen as isize + k as isize;
            let v = if idx < 0 { 0 } else { input[idx as usize] };
            if v != code[k] {
                diffs += 1;
            }
        }
        if diffs <= allowed {
            e.push(etag(i, "s", 1, diffs as u64));
        }
    }
    check_tags(&b, &e);
    // data passes through unchanged
    assert!(a.data.len() == l);
    for i in 0..l {
        assert!(a.data[i] == input[i], "CorrelateAccessCodeTag must pass the data through");
    }
    std::mem::forget((input, code, tags, e));
    finish1(b);
}

/// BurstTagger: a tag "b" = Bool(level) on every sample where the trigger crosses the
/// threshold (initially below); data and its tags pass through.
pub fn burst_tagger(l: usize, cap: usize, sched: &[(usize, usize, usize)], br: usize, tagpos: &[usize], above: &[bool]) {
    let ia = sym_vec::<u8>(l);
    let trig = sym_vec::<f32>(l);
    let th: f32 = any();
    // where the trigger is above the threshold decides how many tags are added: a size
    for i in 0..l {
        assume((trig[i] > th) == above[i]);
    }
    let ta = in_tags(tagpos);
    let mut r = Rig21::new(cap, cap, &|a, b| BurstTagger::<u8>::new(a, b, th, "b"));
    for (fa, fb, d) in sched {
        let v = r.step(&ia, &ta, &trig, &[], *fa, *fb, *d);
        assert!(v != Verdict::Err);
    }
    r.flush(&ia, &ta, &trig, &[], br);
    let mut e = Vec::with_capacity(MAXV);
    for t in ta.iter() {
        e.push(expect_of(t, t.abs));
    }
    let mut last = false;
    for i in 0..l {
        let cur = trig[i] > th;
        if cur != last {
            e.push(etag(i, "b", 0, cur as u64));
        }
        last = cur;
    }
    check_tags(&r.out, &e);
    assert!(r.out.data.len() == l);
    witness!("tags compared");
    std::mem::forget((r, ia, trig, ta, e));
}

/// VectorSource: start/repeat on the first sample of every repetition, first once.
/// `drains`: how many samples the reader takes before each work() call.
pub fn vector_source(len: usize, repeat: u64, cap: usize, drains: &[usize]) {
    set_cap(cap);
    let data = sym_vec::<u8>(len);
    let mut d2 = Vec::with_capacity(len.max(1));
    for x in data.iter() {
        d2.push(*x);
    }
    let (mut src, rx) = VectorSourceBuilder::new(d2).repeat(rustradio::Repeat::finite(repeat)).build();
    let mut out = Collected::new();
    let mut eof = false;
    for d in drains {
        drain(&rx, *d, &mut out);
        let v = work_once(&mut src);
        assert!(v != Verdict::Err);
        if v == Verdict::Eof {
            eof = true;
            // EOF exactly when everything has been emitted
            assert!(out.data.len() + buffered_r(&rx) == len * repeat as usize, "EOF reported before (or after more than) repeat x data samples were emitted");
        } else {
            assert!(!eof, "source resumed after reporting EOF");
        }
    }
    drain(&rx, usize::MAX, &mut out);
    let total = len * repeat as usize;
    assert!(eof, "BOUND: source did not reach EOF within the schedule");
    assert!(out.data.len() == total, "source emitted a different number of samples than repeat x data");
    let mut e = Vec::with_capacity(MAXV);
    for r in 0..(repeat as usize) {
        if len > 0 {
            e.push(etag(r * len, "VectorSource::start", 0, 1));
            e.push(etag(r * len, "VectorSource::repeat", 1, r as u64));
        }
    }
    if total > 0 {
        e.push(etag(0, "VectorSource::first", 0, 1));
    }
    for i in 0..total {
        assert!(out.data[i] == data[i % len], "source sample differs from data[i mod len]");
    }
    check_tags(&out, &e);
    witness!("tags compared");
    std::mem::forget((src, rx, out, data, e));
}

/// VecToStream: start on the first and end on the last sample of every vector, value = length.
pub fn vec_to_stream(l1: usize, l2: usize, cap: usize, drains: &[usize]) {
    set_cap(cap);
    let (tx, nrx): (NCWriteStream<Vec<u8>>, _) = new_nocopy_stream();
    let v1 = sym_vec::<u8>(l1);
    let v2 = sym_vec::<u8>(l2);
    let mut all = Vec::with_capacity(MAXV);
    for x in v1.iter() {
        all.push(*x);
    }
    for x in v2.iter() {
        all.push(*x);
    }
    tx.push(v1, &[]);
    tx.push(v2, &[]);
    let (mut b, rx) = VecToStream::<u8>::new(nrx);
    let mut out = Collected::new();
    for d in drains {
        drain(&rx, *d, &mut out);
        let v = work_once(&mut b);
        assert!(v != Verdict::Err);
    }
    drain(&rx, usize::MAX, &mut out);
    assert!(out.data.len() == l1 + l2, "BOUND: not everything was converted within the schedule");
    for i in 0..(l1 + l2) {
        assert!(out.data[i] == all[i], "VecToStream sample order differs");
    }
    let mut e = Vec::with_capacity(MAXV);
    if l1 > 0 {
        e.push(etag(0, "VecToStream::start", 1, l1 as u64));
        e.push(etag(l1 - 1, "VecToStream::end", 1, l1 as u64));
    }
    if l2 > 0 {
        e.push(etag(l1, "VecToStream::start", 1, l2 as u64));
        e.push(etag(l1 + l2 - 1, "VecToStream::end", 1, l2 as u64));
    }
    check_tags(&out, &e);
    witness!("tags compared");
    std::mem::forget((b, rx, tx, out, all, e));
}

/// Delay whose delay is shortened mid-stream (set_delay): the next (d0-d1) input samples
/// are dropped together with their tags; surviving tags are shifted by the new delay.
pub fn delay_shorten(n1: usize, n2: usize, d0: usize, d1: usize, cap: usize, feeds2: &[(usize, usize)], tagpos: &[usize]) {
    let l = n1 + n2;
    let input = sym_vec::<u8>(l);
    let tags = in_tags(tagpos);
    let mut r = Rig11::new(cap, cap, &|src| Delay::new(src, d0));
    // phase 1: first n1 samples through, fully drained
    let mut k = 0;
    while k < n1 + d0 + 3 {
        let remaining = if r.next < n1 { n1 - r.next } else { 0 };
        feed(&r.tx, &input, &mut r.next, remaining, &tags);
        drain(&r.rx, usize::MAX, &mut r.out);
        let _ = work_once(&mut r.b);
        k += 1;
    }
    drain(&r.rx, usize::MAX, &mut r.out);
    assert!(r.out.data.len() == d0 + n1, "BOUND: phase 1 not complete");
    r.b.set_delay(d1);
    // phase 2: scheduled delivery of the rest, then flush
    for (f, d) in feeds2 {
        let v = r.step(&input, &tags, *f, *d);
        assert!(v != Verdict::Err);
    }
    r.flush(&input, &tags, n2 + 4);
    let skip = d0 - d1;
    let kept = if n2 > skip { n2 - skip } else { 0 };
    assert!(r.out.data.len() == d0 + n1 + kept, "output count after shortening the delay differs from (delay + input - dropped)");
    for i in 0..kept {
        assert!(r.out.data[d0 + n1 + i] == input[n1 + skip + i], "wrong samples survive a shortened delay");
    }
    let mut e = Vec::with_capacity(4);
    for t in tags.iter() {
        if t.abs < n1 {
            e.push(etag(t.abs + d0, t.key_str(), 1, t.val));
        } else if t.abs >= n1 + skip {
            e.push(etag(t.abs + d1, t.key_str(), 1, t.val));
        }
    }
    check_tags(&r.out, &e);
    witness!("tags compared");
    std::mem::forget((r, input, tags, e));
}
