//! Block-level rig: a real block on small real streams, driven by a concrete delivery
//! schedule with symbolic samples (C08, C09, C10, C12, C19).
use crate::sym::{Bits, SymVal, any};
use rustradio::block::{Block, BlockRet};
use rustradio::stream::verif_access::new_stream_sized;
use rustradio::stream::{ReadStream, StreamWait, Tag, TagValue, WriteStream};

pub const MAXV: usize = 16;

/// A work() verdict with the borrow removed.
#[derive(Clone, Copy, PartialEq, Debug)]
pub enum Verdict {
    Again,
    Pending,
    WaitFunc,
    /// (identity of the stream waited for, need)
    WaitStream(usize, usize),
    Eof,
    Err,
}

/// Identity of a stream end: the address of the shared ring/queue it points to.
/// (`ReadStream`, `WriteStream`, `NCReadStream`, `NCWriteStream` are single-field structs
/// holding an `Arc`; both ends of one stream hold the same pointer.)
pub fn id_of<T>(x: &T) -> usize {
    // SAFETY: reads the first word of a live object that is at least one word long.
    unsafe { *(x as *const T as *const usize) }
}
fn id_of_dyn(s: &dyn StreamWait) -> usize {
    // SAFETY: as above; the data pointer of the trait object points at the stream end.
    unsafe { *(s as *const dyn StreamWait as *const usize) }
}

pub fn set_cap(n: usize) {
    rustradio::verif::set_stream_samples(n);
}

pub fn activity() -> usize {
    rustradio::verif::activity_total()
}

/// One call of the real work().
pub fn work_once<B: Block + ?Sized>(b: &mut B) -> Verdict {
    match b.work() {
        Ok(BlockRet::Again) => Verdict::Again,
        Ok(BlockRet::Pending) => Verdict::Pending,
        Ok(BlockRet::WaitForFunc(f)) => {
            std::mem::forget(f);
            Verdict::WaitFunc
        }
        Ok(BlockRet::WaitForStream(s, need)) => Verdict::WaitStream(id_of_dyn(s), need),
        Ok(BlockRet::EOF) => Verdict::Eof,
        Err(e) => {
            std::mem::forget(e);
            Verdict::Err
        }
    }
}

/// A tag as the harness tracks it: absolute sample index + symbolic identity.
#[derive(Clone, Copy)]
pub struct ATag {
    pub abs: usize,
    /// key = "k0" / "k1"
    pub key: bool,
    pub val: u64,
}
impl ATag {
    pub fn key_str(&self) -> &'static str {
        if self.key { "k1" } else { "k0" }
    }
}

/// What came out of a stream, with tags at absolute output indices.
pub struct Collected<O> {
    pub data: Vec<O>,
    /// (absolute index, key bytes (first two), kind, value)
    pub tags: Vec<OTag>,
}
#[derive(Clone, Copy)]
pub struct OTag {
    pub abs: usize,
    pub k0: u8,
    pub k1: u8,
    pub klen: usize,
    /// wrapping sum of the key bytes
    pub ksum: u32,
    /// 0 Bool, 1 U64, 2 Float, 3 String
    pub kind: u8,
    pub val: u64,
}
pub fn key_sum(k: &[u8]) -> u32 {
    let mut s = 0u32;
    for b in k {
        s = s.wrapping_mul(31).wrapping_add(*b as u32);
    }
    s
}
impl<O> Collected<O> {
    pub fn new() -> Self {
        Self {
            data: Vec::with_capacity(MAXV),
            tags: Vec::with_capacity(MAXV),
        }
    }
}

pub fn otag(abs: usize, t: &Tag) -> OTag {
    let k = t.key().as_bytes();
    let (kind, val) = match t.val() {
        TagValue::Bool(b) => (0u8, *b as u64),
        TagValue::U64(v) => (1u8, *v),
        TagValue::Float(f) => (2u8, f.to_bits() as u64),
        TagValue::String(_) => (3u8, 0),
    };
    OTag {
        abs,
        k0: if !k.is_empty() { k[0] } else { 0 },
        k1: if k.len() > 1 { k[k.len() - 1] } else { 0 },
        klen: k.len(),
        ksum: key_sum(k),
        kind,
        val,
    }
}

/// Offer `data[*next .. *next+upto]` (clamped to free space) on `tx`, with the tags
/// whose absolute index falls into the offered range.  Returns how many were fed.
pub fn feed<T: Copy>(tx: &WriteStream<T>, data: &[T], next: &mut usize, upto: usize, tags: &[ATag]) -> usize {
    let remaining = data.len() - *next;
    let mut w = match tx.write_buf() {
        Ok(w) => w,
        Err(e) => {
            std::mem::forget(e);
            panic!("harness: write_buf failed");
        }
    };
    let mut n = upto;
    if n > remaining {
        n = remaining;
    }
    if n > w.len() {
        n = w.len();
    }
    if n == 0 {
        drop(w);
        return 0;
    }
    {
        let s = w.slice();
        for i in 0..n {
            s[i] = data[*next + i];
        }
    }
    let mut tv: Vec<Tag> = Vec::with_capacity(4);
    for t in tags {
        if t.abs >= *next && t.abs < *next + n {
            tv.push(Tag::new(t.abs - *next, t.key_str(), TagValue::U64(t.val)));
        }
    }
    w.produce(n, &tv);
    std::mem::forget(tv);
    *next += n;
    n
}

/// Take up to `upto` samples out of `rx` into `out`, recording the tags of the taken
/// samples at absolute output indices.
pub fn drain<T: Copy>(rx: &ReadStream<T>, upto: usize, out: &mut Collected<T>) -> usize {
    let (r, tags) = match rx.read_buf() {
        Ok(x) => x,
        Err(e) => {
            std::mem::forget(e);
            panic!("harness: read_buf failed");
        }
    };
    let mut n = r.len();
    if n > upto {
        n = upto;
    }
    let base = out.data.len();
    assert!(base + n <= MAXV, "BOUND: harness output vector too small");
    {
        let s = r.slice();
        for i in 0..n {
            out.data.push(s[i]);
        }
    }
    for t in tags.iter() {
        if t.pos() < n {
            assert!(out.tags.len() < MAXV, "BOUND: harness tag vector too small");
            out.tags.push(otag(base + t.pos(), t));
        }
    }
    std::mem::forget(tags);
    r.consume(n);
    n
}

/// Number of samples currently buffered in a stream (no scheduling point, no handle).
pub fn buffered_r<T: Copy>(rx: &ReadStream<T>) -> usize {
    rustradio::circular_buffer::verif_access::state(rx.verif_ring()).2
}
pub fn buffered_w<T: Copy>(tx: &WriteStream<T>) -> usize {
    rustradio::circular_buffer::verif_access::state(tx.verif_ring()).2
}

pub fn sym_vec<T: SymVal>(n: usize) -> Vec<T> {
    let mut v = Vec::with_capacity(if n == 0 { 1 } else { n });
    for _ in 0..n {
        v.push(any::<T>());
    }
    v
}

/// A 1-input / 1-output block with the harness holding the other stream ends.
pub struct Rig11<B, I: Copy, O: Copy> {
    pub b: B,
    pub tx: WriteStream<I>,
    pub rx: ReadStream<O>,
    pub next: usize,
    pub out: Collected<O>,
}

impl<B: Block, I: Copy, O: Copy> Rig11<B, I, O> {
    /// `mk` receives the block's input read end; output streams the block creates get
    /// `cap_out` samples.
    pub fn new<F: Fn(ReadStream<I>) -> (B, ReadStream<O>)>(cap_in: usize, cap_out: usize, mk: &F) -> Self {
        let (tx, rx_in) = new_stream_sized::<I>(cap_in);
        set_cap(cap_out);
        let (b, rx) = mk(rx_in);
        Self {
            b,
            tx,
            rx,
            next: 0,
            out: Collected::new(),
        }
    }
    pub fn step(&mut self, input: &[I], tags: &[ATag], f: usize, d: usize) -> Verdict {
        feed(&self.tx, input, &mut self.next, f, tags);
        drain(&self.rx, d, &mut self.out);
        work_once(&mut self.b)
    }
    /// Feed/drain everything and call work() `rounds` times; the last round must be idle.
    pub fn flush(&mut self, input: &[I], tags: &[ATag], rounds: usize) {
        let mut idle = false;
        for _ in 0..rounds {
            let a0 = activity();
            let f = feed(&self.tx, input, &mut self.next, usize::MAX, tags);
            let d = drain(&self.rx, usize::MAX, &mut self.out);
            let _ = work_once(&mut self.b);
            idle = f == 0 && d == 0 && activity() == a0;
        }
        drain(&self.rx, usize::MAX, &mut self.out);
        assert!(idle, "BOUND: block not quiescent after the flush rounds of this harness");
    }
    pub fn forget(self) {
        std::mem::forget(self);
    }
}

/// C08 core for 1->1 blocks: same symbolic input, one-shot (A) vs scheduled (B).
/// Returns both collections for further oracles (C10 reference, C12 tags).
pub fn ab_11<B: Block, I: Copy + SymVal, O: Copy + Bits, F: Fn(ReadStream<I>) -> (B, ReadStream<O>)>(
    mk: &F,
    input: &[I],
    tags: &[ATag],
    cap: usize,
    sched: &[(usize, usize)],
    a_out_cap: usize,
    a_rounds: usize,
    b_rounds: usize,
) -> (Collected<O>, Collected<O>) {
    // Instance A: everything at once, ample output space.
    let a_in_cap = if input.is_empty() { 1 } else { input.len() };
    let mut a = Rig11::new(a_in_cap, a_out_cap, mk);
    a.flush(input, tags, a_rounds);
    assert!(a.next == input.len(), "BOUND: instance A did not take all input");
    // Instance B: drip feed.
    let mut b = Rig11::new(cap, cap, mk);
    for (f, d) in sched {
        let v = b.step(input, tags, *f, *d);
        assert!(v != Verdict::Err, "work() returned an error during the schedule");
        // prefix property while input is pending
        assert!(b.out.data.len() <= a.out.data.len(), "scheduled run produced more output than the one-shot run");
        for i in 0..b.out.data.len() {
            assert!(b.out.data[i].bits_eq(&a.out.data[i]), "scheduled output is not a prefix of the one-shot output");
        }
    }
    b.flush(input, tags, b_rounds);
    assert!(b.next == input.len(), "BOUND: instance B did not take all input");
    assert!(b.out.data.len() == a.out.data.len(), "output length depends on chunking");
    for i in 0..a.out.data.len() {
        assert!(b.out.data[i].bits_eq(&a.out.data[i]), "output sample depends on chunking");
    }
    let (ao, bo) = (
        std::mem::replace(&mut a.out, Collected { data: Vec::new(), tags: Vec::new() }),
        std::mem::replace(&mut b.out, Collected { data: Vec::new(), tags: Vec::new() }),
    );
    a.forget();
    b.forget();
    (ao, bo)
}

/// A 2-input / 1-output block.
pub struct Rig21<B, I1: Copy, I2: Copy, O: Copy> {
    pub b: B,
    pub txa: WriteStream<I1>,
    pub txb: WriteStream<I2>,
    pub rx: ReadStream<O>,
    pub na: usize,
    pub nb: usize,
    pub out: Collected<O>,
}
impl<B: Block, I1: Copy, I2: Copy, O: Copy> Rig21<B, I1, I2, O> {
    pub fn new<F: Fn(ReadStream<I1>, ReadStream<I2>) -> (B, ReadStream<O>)>(cap_in: usize, cap_out: usize, mk: &F) -> Self {
        let (txa, ra) = new_stream_sized::<I1>(cap_in);
        let (txb, rb) = new_stream_sized::<I2>(cap_in);
        set_cap(cap_out);
        let (b, rx) = mk(ra, rb);
        Self { b, txa, txb, rx, na: 0, nb: 0, out: Collected::new() }
    }
    pub fn step(&mut self, a: &[I1], ta: &[ATag], bb: &[I2], tb: &[ATag], fa: usize, fb: usize, d: usize) -> Verdict {
        feed(&self.txa, a, &mut self.na, fa, ta);
        feed(&self.txb, bb, &mut self.nb, fb, tb);
        drain(&self.rx, d, &mut self.out);
        work_once(&mut self.b)
    }
    pub fn flush(&mut self, a: &[I1], ta: &[ATag], bb: &[I2], tb: &[ATag], rounds: usize) {
        let mut idle = false;
        for _ in 0..rounds {
            let a0 = activity();
            let f1 = feed(&self.txa, a, &mut self.na, usize::MAX, ta);
            let f2 = feed(&self.txb, bb, &mut self.nb, usize::MAX, tb);
            let d = drain(&self.rx, usize::MAX, &mut self.out);
            let _ = work_once(&mut self.b);
            idle = f1 == 0 && f2 == 0 && d == 0 && activity() == a0;
        }
        drain(&self.rx, usize::MAX, &mut self.out);
        assert!(idle, "BOUND: block not quiescent after the flush rounds of this harness");
    }
}

/// A 1-input / 2-output block.
pub struct Rig12<B, I: Copy, O1: Copy, O2: Copy> {
    pub b: B,
    pub tx: WriteStream<I>,
    pub rx1: ReadStream<O1>,
    pub rx2: ReadStream<O2>,
    pub next: usize,
    pub out1: Collected<O1>,
    pub out2: Collected<O2>,
}
impl<B: Block, I: Copy, O1: Copy, O2: Copy> Rig12<B, I, O1, O2> {
    pub fn new<F: Fn(ReadStream<I>) -> (B, ReadStream<O1>, ReadStream<O2>)>(cap_in: usize, cap_out: usize, mk: &F) -> Self {
        let (tx, r) = new_stream_sized::<I>(cap_in);
        set_cap(cap_out);
        let (b, rx1, rx2) = mk(r);
        Self { b, tx, rx1, rx2, next: 0, out1: Collected::new(), out2: Collected::new() }
    }
    pub fn step(&mut self, input: &[I], tags: &[ATag], f: usize, d1: usize, d2: usize) -> Verdict {
        feed(&self.tx, input, &mut self.next, f, tags);
        drain(&self.rx1, d1, &mut self.out1);
        drain(&self.rx2, d2, &mut self.out2);
        work_once(&mut self.b)
    }
    pub fn flush(&mut self, input: &[I], tags: &[ATag], rounds: usize) {
        let mut idle = false;
        for _ in 0..rounds {
            let a0 = activity();
            let f = feed(&self.tx, input, &mut self.next, usize::MAX, tags);
            let d1 = drain(&self.rx1, usize::MAX, &mut self.out1);
            let d2 = drain(&self.rx2, usize::MAX, &mut self.out2);
            let _ = work_once(&mut self.b);
            idle = f == 0 && d1 == 0 && d2 == 0 && activity() == a0;
        }
        drain(&self.rx1, usize::MAX, &mut self.out1);
        drain(&self.rx2, usize::MAX, &mut self.out2);
        assert!(idle, "BOUND: block not quiescent after the flush rounds of this harness");
    }
}

/// Scheduled delivery only (no one-shot twin): returns what instance B produced.
pub fn run_b_11<B: Block, I: Copy, O: Copy, F: Fn(ReadStream<I>) -> (B, ReadStream<O>)>(
    mk: &F,
    input: &[I],
    tags: &[ATag],
    cap: usize,
    sched: &[(usize, usize)],
    b_rounds: usize,
) -> Collected<O> {
    let mut b = Rig11::new(cap, cap, mk);
    for (f, d) in sched {
        let v = b.step(input, tags, *f, *d);
        assert!(v != Verdict::Err, "work() returned an error during the schedule");
    }
    b.flush(input, tags, b_rounds);
    assert!(b.next == input.len(), "BOUND: instance B did not take all input");
    let bo = std::mem::replace(&mut b.out, Collected { data: Vec::new(), tags: Vec::new() });
    b.forget();
    bo
}
