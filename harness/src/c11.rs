//! C11 (partial): FIR / IIR kernels against their defining sums and recurrences on a
//! wrapping-integer instantiation of the same generic code; calc_fft_size.
use crate::blk::*;
use crate::sym::{Bits, SymVal, any, assume};
use crate::witness;
use rustradio::fir::{Fir, FirFilterBuilder};
use rustradio::iir_filter::{Filter, IirFilter};
use rustradio::stream::ReadStream;

/// Wrapping 16-bit integer sample.
#[derive(Clone, Copy, Default, PartialEq, Debug)]
pub struct W16(pub i16);
impl std::ops::Add for W16 {
    type Output = W16;
    fn add(self, o: W16) -> W16 {
        W16(self.0.wrapping_add(o.0))
    }
}
impl std::ops::Mul for W16 {
    type Output = W16;
    fn mul(self, o: W16) -> W16 {
        W16(self.0.wrapping_mul(o.0))
    }
}
impl SymVal for W16 {
    fn sym() -> Self {
        W16(any())
    }
}
impl Bits for W16 {
    fn bits_eq(&self, o: &Self) -> bool {
        self.0 == o.0
    }
}

/// out[j] = sum_k taps[k] * x[j*deci + ntaps-1-k]
fn fir_ref(taps: &[W16], x: &[W16], j: usize, deci: usize) -> W16 {
    let nt = taps.len();
    let mut acc = W16(0);
    for k in 0..nt {
        acc = acc + taps[k] * x[j * deci + nt - 1 - k];
    }
    acc
}

/// Fir::{new, filter, filter_n, filter_n_inplace} against the definition.
pub fn fir_kernel(ntaps: usize, n: usize, deci: usize) {
    let taps = sym_vec::<W16>(ntaps);
    let x = sym_vec::<W16>(n);
    let f = Fir::new(&taps);
    if n >= ntaps {
        let y0 = f.filter(&x);
        assert!(y0.bits_eq(&fir_ref(&taps, &x, 0, 1)), "Fir::filter is not the dot product of the taps with the input window");
        let v = f.filter_n(&x, deci);
        let count = (n - ntaps) / deci + 1;
        assert!(v.len() == count, "Fir::filter_n output count differs from floor((n-ntaps)/deci)+1");
        for j in 0..count {
            assert!(v[j].bits_eq(&fir_ref(&taps, &x, j, deci)), "Fir::filter_n output differs from the sliding dot product");
        }
        let mut out = Vec::with_capacity(MAXV);
        for _ in 0..count {
            out.push(W16(0));
        }
        f.filter_n_inplace(&x, deci, &mut out);
        for j in 0..count {
            assert!(out[j].bits_eq(&v[j]), "filter_n_inplace differs from filter_n");
        }
        std::mem::forget((v, out));
    }
    witness!("kernel compared");
    std::mem::forget((taps, x, f));
}

/// FirFilter block: chunked == one-shot (C08), values == definition, count within one
/// decimation step of the definition, decimation phase kept across calls.
pub fn fir_block(ntaps: usize, deci: usize, l: usize, cap: usize, sched: &[(usize, usize)], br: usize) {
    let taps = sym_vec::<W16>(ntaps);
    let input = sym_vec::<W16>(l);
    let mk = |src: ReadStream<W16>| FirFilterBuilder::new(&taps).deci(deci).build(src);
    let (a, b) = ab_11(&mk, &input, &[], cap, sched, l.max(1), 4, br);
    // every emitted output is the definition's j-th output
    let def_count = if l >= ntaps { (l - ntaps) / deci + 1 } else { 0 };
    let min_count = if l + 1 >= ntaps + deci { (l + 1 - ntaps) / deci } else { 0 };
    assert!(a.data.len() <= def_count && a.data.len() >= min_count, "FirFilter output count is not within one decimation step of the definition");
    for j in 0..a.data.len() {
        assert!(a.data[j].bits_eq(&fir_ref(&taps, &input, j, deci)), "FirFilter output differs from the sliding dot product (decimation phase lost?)");
    }
    witness!("block compared");
    std::mem::forget((a, b, taps, input));
}

/// IirFilter::filter against y[n] = t0*x[n] + sum_{i>=1} t[i]*y[n-i] (zero history).
pub fn iir(ntaps: usize, n: usize) {
    let taps = sym_vec::<W16>(ntaps);
    let x = sym_vec::<W16>(n);
    let mut f = IirFilter::new(&taps);
    let mut y: Vec<W16> = Vec::with_capacity(MAXV);
    for k in 0..n {
        let got = f.filter(x[k]);
        let mut acc = taps[0] * x[k];
        for i in 1..ntaps {
            if k >= i {
                acc = acc + y[k - i] * taps[i];
            }
        }
        assert!(got.bits_eq(&acc), "IirFilter::filter differs from its recurrence");
        y.push(acc);
    }
    witness!("recurrence compared");
    std::mem::forget((taps, x, f, y));
}

/// IirFilter::fill(s) == history of ntaps-1 samples equal to s.
pub fn iir_fill(ntaps: usize) {
    let taps = sym_vec::<W16>(ntaps);
    let s: W16 = any();
    let x: W16 = any();
    let mut f = IirFilter::new(&taps);
    f.fill(s);
    let got = f.filter(x);
    let mut acc = taps[0] * x;
    for i in 1..ntaps {
        acc = acc + s * taps[i];
    }
    assert!(got.bits_eq(&acc), "IirFilter::fill does not preload the history");
    witness!("fill compared");
    std::mem::forget((taps, f));
}

/// Fir<f32>::filter bit-exact against the same expression tree (<= 2 taps).
pub fn fir_f32(ntaps: usize) {
    let taps = sym_vec::<f32>(ntaps);
    let x = sym_vec::<f32>(ntaps);
    let f = Fir::new(&taps);
    let got = f.filter(&x);
    // fold(0.0, |acc, (in, tap_rev)| acc + tap_rev * in), taps reversed
    let mut acc = 0.0f32;
    for m in 0..ntaps {
        acc = acc + taps[ntaps - 1 - m] * x[m];
    }
    assert!(got.bits_eq(&acc), "Fir<f32>::filter differs from its definition");
    witness!("f32 kernel compared");
    std::mem::forget((taps, x, f));
}

/// calc_fft_size(from): a power of two, >= 2*from, and minimal (2 * next power of two).
pub fn fft_size() {
    let from: usize = any();
    assume(from <= (1 << 20));
    let n = rustradio::fft_filter::verif_access::calc_fft_size(from);
    assert!(n.is_power_of_two(), "fft size is not a power of two");
    assert!(n >= 2 * from, "fft size is smaller than twice the tap count");
    let h = n / 2;
    assert!(h.is_power_of_two() && h >= from, "half the fft size must be a power of two covering the taps");
    assert!(h == 1 || h / 2 < from, "fft size is not minimal");
    witness!("fft size checked");
}
