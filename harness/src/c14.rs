//! C14 (a): Sample::{size,serialize,parse} round trip for every bit pattern.
use crate::sym::{Bits, SymVal, any};
use crate::witness;
use rustradio::{Complex, Sample};

fn roundtrip<T>(le: &dyn Fn(&T, usize) -> u8)
where
    T: Sample<Type = T> + SymVal + Bits,
{
    let x: T = any();
    let bytes = x.serialize();
    assert!(bytes.len() == T::size(), "serialize() length differs from size()");
    for i in 0..bytes.len() {
        assert!(bytes[i] == le(&x, i), "serialized bytes are not the little-endian layout");
    }
    let y = match T::parse(&bytes) {
        Ok(y) => y,
        Err(e) => {
            std::mem::forget(e);
            panic!("parse(serialize(x)) failed");
        }
    };
    assert!(y.exact_eq(&x), "parse(serialize(x)) != x");
    witness!("round trip compared");
    std::mem::forget(bytes);
}

pub fn rt_u8() {
    roundtrip::<u8>(&|x, _| *x);
}
pub fn rt_u32() {
    roundtrip::<u32>(&|x, i| (*x >> (8 * i)) as u8);
}
pub fn rt_i32() {
    roundtrip::<i32>(&|x, i| ((*x as u32) >> (8 * i)) as u8);
}
pub fn rt_f32() {
    roundtrip::<f32>(&|x, i| (x.to_bits() >> (8 * i)) as u8);
}
pub fn rt_complex() {
    roundtrip::<Complex>(&|x, i| {
        if i < 4 {
            (x.re.to_bits() >> (8 * i)) as u8
        } else {
            (x.im.to_bits() >> (8 * (i - 4))) as u8
        }
    });
}
