//! C14 (a): Sample::{size,serialize,parse} round trip for every bit pattern.
use crate::sym::{Bits, SymVal, any};
use crate::witness;
use rustradio::{Complex, Sample};

fn roundtrip<T>(le: &dyn Fn(&T, usize) -> u8)
where
    T: Sample<Type = T> + SymVal + Bits,
{
    let x: T = any();
    let bytes = x.serialize();
    assert!(bytes.len() == T::size(), "serialize() length differs from size()");
    for i in 0..bytes.len() {
        assert!(bytes[i] == le(&x, i), "serialized bytes are not the little-endian layout");
    }
    let y = match T::parse(&bytes) {
        Ok(y) => y,
        Err(e) => {
            std::mem::forget(e);
            panic!("parse(serialize(x)) failed");
        }
    };
    assert!(y.exact_eq(&x), "parse(serialize(x)) != x");
    witness!("round trip compared");
    std::mem::forget(bytes);
}

pub fn rt_u8() {
    roundtrip::<u8>(&|x, _| *x);
}
pub fn rt_u32() {
    roundtrip::<u32>(&|x, i| (*x >> (8 * i)) as u8);
}
pub fn rt_i32() {
    roundtrip::<i32>(&|x, i| ((*x as u32) >> (8 * i)) as u8);
}
pub fn rt_f32() {
    roundtrip::<f32>(&|x, i| (x.to_bits() >> (8 * i)) as u8);
}
pub fn rt_complex() {
    roundtrip::<Complex>(&|x, i| {
        if i < 4 {
            (x.re.to_bits() >> (8 * i)) as u8
        } else {
            (x.im.to_bits() >> (8 * (i - 4))) as u8
        }
    });
}

// ---- (c) TcpSource reassembly over a ghost byte stream -----------------------------
use crate::blk::*;
use std::os::fd::FromRawFd;
use std::sync::atomic::{AtomicUsize, Ordering};

const GB: usize = 0x7e14_0000_0000_0000;
static GPOS: AtomicUsize = AtomicUsize::new(GB);
static GLEN: AtomicUsize = AtomicUsize::new(GB + 0x100);
static mut GHOST: [u8; 16] = [0x5a; 16];
static mut SEGS: [usize; 8] = [0x11; 8];
static CALLNO: AtomicUsize = AtomicUsize::new(GB + 0x200);

/// Kani stub for `<TcpStream as Read>::read`: delivers the next k ghost bytes, k symbolic in
/// 1..=min(max_seg, buf.len(), remaining); 0 at end of stream (and for an empty buffer).
pub fn tcp_read_stub(_s: &mut std::net::TcpStream, buf: &mut [u8]) -> std::io::Result<usize> {
    let pos = GPOS.load(Ordering::SeqCst) - GB;
    let len = GLEN.load(Ordering::SeqCst) - (GB + 0x100);
    let remaining = len - pos;
    if buf.is_empty() || remaining == 0 {
        return Ok(0);
    }
    // the size of every read() result is a size, hence enumerated per instance (SEGS)
    let c = CALLNO.load(Ordering::SeqCst) - (GB + 0x200);
    CALLNO.store(GB + 0x200 + c + 1, Ordering::SeqCst);
    // SAFETY: single-threaded harness.
    let mut k = unsafe { SEGS[if c < 8 { c } else { 7 }] };
    if k > buf.len() {
        k = buf.len();
    }
    if k > remaining {
        k = remaining;
    }
    for i in 0..k {
        // SAFETY: single-threaded harness, pos+i < len <= 16.
        buf[i] = unsafe { GHOST[pos + i] };
    }
    GPOS.store(GB + pos + k, Ordering::SeqCst);
    Ok(k)
}

/// TcpSource<u32>: `len` ghost bytes arrive in the enumerated segments `segs` (1..4 bytes each) over `calls`
/// work() calls (output capacity `cap` samples, drained before every call): the emitted
/// samples are exactly the complete little-endian samples of the bytes delivered so far.
pub fn tcp_source(len: usize, cap: usize, calls: usize, segs: &[usize], drain_mask: u32) {
    for i in 0..8 {
        // SAFETY: single-threaded harness.
        unsafe { SEGS[i] = if i < segs.len() { segs[i] } else { 4 } };
    }
    CALLNO.store(GB + 0x200, Ordering::SeqCst);
    for i in 0..len {
        // SAFETY: single-threaded harness.
        unsafe { GHOST[i] = any::<u8>() };
    }
    GPOS.store(GB, Ordering::SeqCst);
    GLEN.store(GB + 0x100 + len, Ordering::SeqCst);
    set_cap(cap);
    // SAFETY: the descriptor is never used (read is stubbed) and the stream is never dropped.
    let stream = unsafe { std::net::TcpStream::from_raw_fd(3) };
    let (mut src, rx) = rustradio::tcp_source::verif_access::with_stream::<u32>(stream);
    let mut out: Collected<u32> = Collected::new();
    for c in 0..calls {
        // bit c of drain_mask: the downstream reader empties the output before call c
        if (drain_mask >> c) & 1 == 1 {
            drain(&rx, usize::MAX, &mut out);
        }
        let v = work_once(&mut src);
        assert!(v != Verdict::Err, "work() returned an error on a healthy byte stream");
        let delivered = GPOS.load(Ordering::SeqCst) - GB;
        let pending = rustradio::tcp_source::verif_access::pending(&src);
        let emitted = out.data.len() + buffered_r(&rx);
        assert!(emitted * 4 + pending == delivered, "bytes were lost or duplicated while reassembling samples");
        if v == Verdict::Eof {
            assert!(delivered == len, "EOF reported although the peer has more data (output full is not end of stream)");
        }
    }
    drain(&rx, usize::MAX, &mut out);
    for i in 0..out.data.len() {
        // SAFETY: single-threaded harness.
        let e = unsafe { (GHOST[4 * i] as u32) | ((GHOST[4 * i + 1] as u32) << 8) | ((GHOST[4 * i + 2] as u32) << 16) | ((GHOST[4 * i + 3] as u32) << 24) };
        assert!(out.data[i] == e, "reassembled sample differs from the byte stream");
    }
    witness!("reassembly checked");
    std::mem::forget((src, rx, out));
}

/// (b) AuDecode on a complete .au stream (28-byte header, mono PCM16) delivered at once:
/// exactly the PCM16 samples of the data section come out - no extra, no missing samples.
pub fn au_decode_stream(nd: usize) {
    let mut input: Vec<u8> = Vec::with_capacity(48);
    for b in [0x2eu8, 0x73, 0x6e, 0x64, 0, 0, 0, 28, 0xff, 0xff, 0xff, 0xff, 0, 0, 0, 3, 0, 0, 0x1f, 0x40, 0, 0, 0, 1, 0, 0, 0, 0] {
        input.push(b);
    }
    for _ in 0..nd {
        input.push(any::<u8>());
    }
    let mk = |src: rustradio::stream::ReadStream<u8>| rustradio::au::AuDecode::new(src, 8000);
    let mut r = Rig11::new(40, 16, &mk);
    r.flush(&input, &[], 7);
    assert!(r.next == input.len(), "BOUND: not all input taken");
    assert!(r.out.data.len() == nd / 2, "decoded sample count differs from the PCM data in the stream (header bytes decoded as samples?)");
    for i in 0..(nd / 2) {
        let e = (i16::from_be_bytes([input[28 + 2 * i], input[28 + 2 * i + 1]]) as f32) / 32767.0;
        assert!(r.out.data[i].bits_eq(&e), "decoded sample differs from big-endian PCM16 / 32767");
    }
    witness!("stream decoded");
    std::mem::forget((r, input));
}
