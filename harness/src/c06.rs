//! C06 / C07: the single-threaded runner `Graph::run` on small graphs of real blocks.
use crate::blk::*;
use crate::sym::{Bits, any};
use crate::witness;
use rustradio::Result;
use rustradio::block::{Block, BlockEOF, BlockName, BlockRet};
use rustradio::blocks::*;
use rustradio::graph::{CancellationToken, Graph, GraphRunner};
use rustradio::stream::ReadStream;
use std::sync::atomic::{AtomicUsize, Ordering};
use std::time::{Duration, Instant};

// ---- Kani stubs (clock, sleep, statistics): their results never influence scheduling.
pub fn now_stub() -> Instant {
    // SAFETY: Instant is a plain timespec; all-zero is a valid value.
    unsafe { std::mem::zeroed() }
}
pub fn elapsed_stub(_i: &Instant) -> Duration {
    Duration::from_secs(0)
}
pub fn cpu_stub() -> Duration {
    Duration::from_secs(0)
}
pub fn sleep_stub(_d: Duration) {}
pub fn stats_stub(_g: &Graph) -> Option<String> {
    Some(String::new())
}

type BB = Box<dyn Block + Send>;

fn add_in_order(g: &mut Graph, mut blocks: Vec<Option<BB>>, order: &[usize]) {
    for i in order {
        let b = blocks[*i].take().unwrap();
        g.add(b);
    }
    std::mem::forget(blocks);
}

fn run_ok(g: &mut Graph) {
    match g.run() {
        Ok(()) => {}
        Err(e) => {
            std::mem::forget(e);
            panic!("Graph::run returned an error on a graph of well-behaved blocks");
        }
    }
}

fn check_sink<T: Copy + Bits>(hook: &rustradio::vector_sink::Hook<T>, expect: &[T]) {
    let d = hook.data();
    let s = d.samples();
    assert!(s.len() <= expect.len(), "sink holds more samples than the reference result");
    for i in 0..s.len() {
        assert!(s[i].bits_eq(&expect[i]), "sink sample differs from the reference result");
    }
    assert!(s.len() == expect.len(), "run() returned although the sink holds less than the reference result");
    drop(d); // release the sink's storage lock (a forgotten guard would keep it held)
}

// A sink that keeps only the samples (VectorSink also stores every tag, which costs CBMC
// minutes per run; its verdict behaviour - consume everything, report a wait on the input -
// is the same).  Storage is static so that the harness can look at it after run().
const SB: usize = 0x7c06_0000_0000_0000;
static SINK_LEN: [AtomicUsize; 2] = [AtomicUsize::new(SB + 1), AtomicUsize::new(SB + 2)];
static mut SINK_DATA: [[u8; 16]; 2] = [[0xa5; 16]; 2];
pub struct CollectSink {
    src: ReadStream<u8>,
    id: usize,
}
impl CollectSink {
    pub fn new(src: ReadStream<u8>, id: usize) -> Self {
        SINK_LEN[id].store(SB + 1 + id, Ordering::SeqCst);
        Self { src, id }
    }
}
fn sink_len(id: usize) -> usize {
    SINK_LEN[id].load(Ordering::SeqCst) - (SB + 1 + id)
}
impl BlockName for CollectSink {
    fn block_name(&self) -> &str {
        "CollectSink"
    }
}
impl BlockEOF for CollectSink {
    fn eof(&mut self) -> bool {
        self.src.eof()
    }
}
impl Block for CollectSink {
    fn work(&mut self) -> Result<BlockRet<'_>> {
        let (i, tags) = self.src.read_buf()?;
        std::mem::forget(tags);
        let n = i.len();
        let base = sink_len(self.id);
        assert!(base + n <= 16, "BOUND: sink storage too small");
        for k in 0..n {
            // SAFETY: single-threaded runner, index checked above.
            unsafe { SINK_DATA[self.id][base + k] = i.slice()[k] };
        }
        SINK_LEN[self.id].store(SB + 1 + self.id + base + n, Ordering::SeqCst);
        i.consume(n);
        Ok(BlockRet::WaitForStream(&self.src, 1))
    }
}

fn check_collect(id: usize, expect: &[u8]) {
    let n = sink_len(id);
    assert!(n <= expect.len(), "sink holds more samples than the reference result");
    for i in 0..n {
        // SAFETY: single-threaded harness.
        assert!(unsafe { SINK_DATA[id][i] } == expect[i], "sink sample differs from the reference result");
    }
    assert!(n == expect.len(), "run() returned although the sink holds less than the reference result");
}

pub const G_DIRECT: u8 = 0;
pub const G_XOR: u8 = 1;
pub const G_TEE: u8 = 2;
pub const G_RESAMP_DOWN: u8 = 3;
pub const G_RESAMP_UP: u8 = 4;
pub const G_XOR_XOR: u8 = 5;

/// Build the graph `shape` over a symbolic source of `len` samples, add the blocks in
/// `order`, run, and check: Ok, reference result in every sink, quiescence (a second
/// run() moves no data and the streams hold no backlog).
pub fn run_graph(shape: u8, order: &[usize], len: usize, cap: usize) {
    set_cap(cap);
    let data = sym_vec::<u8>(len);
    let mut src_data = Vec::with_capacity(len.max(1));
    for x in data.iter() {
        src_data.push(*x);
    }
    let c: u8 = any();
    let mut expect: Vec<u8> = Vec::with_capacity(MAXV);
    let mut expect2: Vec<u8> = Vec::with_capacity(MAXV);
    let (src, s_out) = VectorSource::new(src_data);
    let mut blocks: Vec<Option<BB>> = Vec::with_capacity(5);
    blocks.push(Some(Box::new(src)));
    let mut g = Graph::new();
    let two;
    match shape {
        G_DIRECT => {
            let sink = CollectSink::new(s_out, 0);
            two = false;
            blocks.push(Some(Box::new(sink)));
            for x in data.iter() {
                expect.push(*x);
            }
        }
        G_XOR => {
            let (f, f_out) = XorConst::new(s_out, c);
            let sink = CollectSink::new(f_out, 0);
            two = false;
            blocks.push(Some(Box::new(f)));
            blocks.push(Some(Box::new(sink)));
            for x in data.iter() {
                expect.push(*x ^ c);
            }
        }
        G_XOR_XOR => {
            let (f, f_out) = XorConst::new(s_out, c);
            let (f2, f2_out) = XorConst::new(f_out, 0x55u8);
            let sink = CollectSink::new(f2_out, 0);
            two = false;
            blocks.push(Some(Box::new(f)));
            blocks.push(Some(Box::new(f2)));
            blocks.push(Some(Box::new(sink)));
            for x in data.iter() {
                expect.push(*x ^ c ^ 0x55);
            }
        }
        G_TEE => {
            let (t, o1, o2) = Tee::new(s_out);
            let sink1 = CollectSink::new(o1, 0);
            let sink2 = CollectSink::new(o2, 1);
            two = true;
            blocks.push(Some(Box::new(t)));
            blocks.push(Some(Box::new(sink1)));
            blocks.push(Some(Box::new(sink2)));
            for x in data.iter() {
                expect.push(*x);
                expect2.push(*x);
            }
        }
        _ => {
            let (interp, deci) = if shape == G_RESAMP_DOWN { (1usize, 2usize) } else { (2usize, 1usize) };
            let (r, r_out) = match RationalResampler::new(s_out, interp, deci) {
                Ok(x) => x,
                Err(e) => {
                    std::mem::forget(e);
                    panic!("RationalResampler::new failed");
                }
            };
            let sink = CollectSink::new(r_out, 0);
            two = false;
            blocks.push(Some(Box::new(r)));
            blocks.push(Some(Box::new(sink)));
            // out[j] = in[floor(j*deci/interp)], count = ceil(n*interp/deci)
            let n_out = (len * interp + deci - 1) / deci;
            for j in 0..n_out {
                expect.push(data[j * deci / interp]);
            }
        }
    };
    add_in_order(&mut g, blocks, order);
    let a0 = activity();
    run_ok(&mut g);
    let a1 = activity();
    witness!("run() returned");
    check_collect(0, &expect);
    if two {
        check_collect(1, &expect2);
    }
    // Quiescence (i): a second run() invokes every block again; nothing may move.
    run_ok(&mut g);
    assert!(activity() == a1, "run() returned while a block could still make progress (a second run moved data)");
    // Quiescence (ii): no backlog left in any stream.
    let (p, c2) = rustradio::verif::activity_counts();
    assert!(p == c2, "run() returned with committed samples still unread in a stream");
    let _ = a0;
    std::mem::forget((g, data, expect, expect2));
}

// ---------------------------------------------------------------------------------
// C07: failing block / cancelling block (harness-defined blocks in the chain).
// ---------------------------------------------------------------------------------
const CB: usize = 0x7c07_0000_0000_0707;
/// work() calls seen by the probe blocks (non-zero initial pattern, see hooks).
static CALLS_A: AtomicUsize = AtomicUsize::new(CB);
static CALLS_B: AtomicUsize = AtomicUsize::new(CB + 0x1000);
static CALLS_AFTER_CANCEL: AtomicUsize = AtomicUsize::new(CB + 0x2000);
static CANCELLED: AtomicUsize = AtomicUsize::new(CB + 0x3000);

fn get(a: &AtomicUsize, base: usize) -> usize {
    a.load(Ordering::SeqCst).wrapping_sub(base)
}

/// A pass-through block that fails (returns Err) on its k-th work() call, or cancels a
/// token during its j-th call; counts calls after a cancel.
pub struct Probe {
    src: ReadStream<u8>,
    dst: rustradio::stream::WriteStream<u8>,
    id: u8,
    fail_on: usize,
    cancel_on: usize,
    token: Option<CancellationToken>,
    calls: usize,
}
impl BlockName for Probe {
    fn block_name(&self) -> &str {
        "Probe"
    }
}
impl BlockEOF for Probe {
    fn eof(&mut self) -> bool {
        self.src.eof()
    }
}
impl Block for Probe {
    fn work(&mut self) -> Result<BlockRet<'_>> {
        self.calls += 1;
        if self.id == 0 {
            CALLS_A.fetch_add(1, Ordering::SeqCst);
        } else {
            CALLS_B.fetch_add(1, Ordering::SeqCst);
        }
        if get(&CANCELLED, CB + 0x3000) == 1 {
            CALLS_AFTER_CANCEL.fetch_add(1, Ordering::SeqCst);
        }
        if self.calls == self.fail_on {
            // an allocation-free error value (String::new() does not allocate)
            return Err(rustradio::Error::msg(String::new()));
        }
        if self.calls == self.cancel_on {
            if let Some(t) = &self.token {
                t.cancel();
                CANCELLED.store(CB + 0x3000 + 1, Ordering::SeqCst);
            }
        }
        let (i, tags) = self.src.read_buf()?;
        std::mem::forget(tags);
        if i.is_empty() {
            return Ok(BlockRet::WaitForStream(&self.src, 1));
        }
        let mut o = self.dst.write_buf()?;
        if o.is_empty() {
            return Ok(BlockRet::WaitForStream(&self.dst, 1));
        }
        let n = std::cmp::min(i.len(), o.len());
        o.slice()[..n].copy_from_slice(&i.slice()[..n]);
        o.produce(n, &[]);
        i.consume(n);
        Ok(BlockRet::Again)
    }
}

fn reset_counters() {
    CALLS_A.store(CB, Ordering::SeqCst);
    CALLS_B.store(CB + 0x1000, Ordering::SeqCst);
    CALLS_AFTER_CANCEL.store(CB + 0x2000, Ordering::SeqCst);
    CANCELLED.store(CB + 0x3000, Ordering::SeqCst);
}

/// (a) a block failing on its k-th call at chain position `pos` (0 = right after the
/// source, 1 = second) makes run() return Err.
pub fn failing_block(pos: usize, k: usize, len: usize, cap: usize, infinite: bool) {
    reset_counters();
    set_cap(cap);
    let data = sym_vec::<u8>(len);
    let mut src = VectorSourceBuilder::new(data);
    if infinite {
        src = src.repeat(rustradio::Repeat::infinite());
    }
    let (src, s_out) = src.build();
    let (w1, r1) = rustradio::stream::new_stream::<u8>();
    let (w2, r2) = rustradio::stream::new_stream::<u8>();
    let p0 = Probe { src: s_out, dst: w1, id: 0, fail_on: if pos == 0 { k } else { 0 }, cancel_on: 0, token: None, calls: 0 };
    let p1 = Probe { src: r1, dst: w2, id: 1, fail_on: if pos == 1 { k } else { 0 }, cancel_on: 0, token: None, calls: 0 };
    let sink = NullSink::new(r2);
    let mut g = Graph::new();
    g.add(Box::new(src));
    g.add(Box::new(p0));
    g.add(Box::new(p1));
    g.add(Box::new(sink));
    let r = g.run();
    let failed_call_happened = if pos == 0 { get(&CALLS_A, CB) >= k } else { get(&CALLS_B, CB + 0x1000) >= k };
    match r {
        Ok(()) => assert!(!failed_call_happened, "a block's work() failed but run() reported success"),
        Err(e) => {
            std::mem::forget(e);
            assert!(failed_call_happened, "run() returned an error although no block failed");
        }
    }
    witness!("run() returned");
    witness!(failed_call_happened, "OPTIONAL: the failing call is reachable");
    std::mem::forget(g);
}

/// (b) a block cancels the token during its j-th call: run() returns Ok and at most one
/// further work() call per probe block happens after the cancel.
pub fn cancelling_block(j: usize, len: usize, cap: usize, infinite: bool, pre_cancel: bool) {
    reset_counters();
    set_cap(cap);
    let data = sym_vec::<u8>(len);
    let mut src = VectorSourceBuilder::new(data);
    if infinite {
        src = src.repeat(rustradio::Repeat::infinite());
    }
    let (src, s_out) = src.build();
    let (w1, r1) = rustradio::stream::new_stream::<u8>();
    let (w2, r2) = rustradio::stream::new_stream::<u8>();
    let mut g = Graph::new();
    let tok = g.cancel_token();
    let tok2 = g.cancel_token();
    if pre_cancel {
        tok2.cancel();
        CANCELLED.store(CB + 0x3000 + 1, Ordering::SeqCst);
    }
    let p0 = Probe { src: s_out, dst: w1, id: 0, fail_on: 0, cancel_on: j, token: Some(tok), calls: 0 };
    let p1 = Probe { src: r1, dst: w2, id: 1, fail_on: 0, cancel_on: 0, token: None, calls: 0 };
    let sink = NullSink::new(r2);
    g.add(Box::new(src));
    g.add(Box::new(p0));
    g.add(Box::new(p1));
    g.add(Box::new(sink));
    match g.run() {
        Ok(()) => {}
        Err(e) => {
            std::mem::forget(e);
            panic!("cancelled run() returned an error");
        }
    }
    let after = get(&CALLS_AFTER_CANCEL, CB + 0x2000);
    if pre_cancel {
        assert!(get(&CALLS_A, CB) == 0 && get(&CALLS_B, CB + 0x1000) == 0, "blocks invoked although the token was cancelled before run()");
    } else {
        // p1 runs after p0 in the cancelling pass: at most that one further call.
        assert!(after <= 1, "more than one further work() call per block after cancellation");
    }
    assert!(tok2.is_canceled() == (get(&CANCELLED, CB + 0x3000) == 1), "token clone does not observe the cancel");
    if infinite && !pre_cancel {
        assert!(get(&CANCELLED, CB + 0x3000) == 1, "run() over an infinite source returned without cancellation");
    }
    witness!("run() returned");
    witness!(get(&CANCELLED, CB + 0x3000) == 1, "OPTIONAL: cancel reachable");
    std::mem::forget(g);
    std::mem::forget(tok2);
}

/// Minimal error-propagation instance: blocks without streams.  `before` blocks that end
/// at once, then a block that fails on its k-th call (Pending before that).
pub struct FailAt {
    k: usize,
    calls: usize,
}
impl BlockName for FailAt {
    fn block_name(&self) -> &str {
        "FailAt"
    }
}
impl BlockEOF for FailAt {}
impl Block for FailAt {
    fn work(&mut self) -> Result<BlockRet<'_>> {
        self.calls += 1;
        CALLS_A.fetch_add(1, Ordering::SeqCst);
        if self.calls == self.k {
            return Err(rustradio::Error::msg(String::new()));
        }
        Ok(BlockRet::Pending)
    }
}
pub struct EndsAtOnce {}
impl BlockName for EndsAtOnce {
    fn block_name(&self) -> &str {
        "EndsAtOnce"
    }
}
impl BlockEOF for EndsAtOnce {}
impl Block for EndsAtOnce {
    fn work(&mut self) -> Result<BlockRet<'_>> {
        Ok(BlockRet::EOF)
    }
}
pub fn failing_minimal(before: usize, k: usize) {
    reset_counters();
    let mut g = Graph::new();
    for _ in 0..before {
        g.add(Box::new(EndsAtOnce {}));
    }
    g.add(Box::new(FailAt { k, calls: 0 }));
    let r = g.run();
    let is_err = r.is_err();
    std::mem::forget(r);
    assert!(get(&CALLS_A, CB) == k, "run() kept calling (or never reached) the failing block");
    assert!(is_err, "a block's work() failed but run() reported success");
    witness!("run() returned");
    std::mem::forget(g);
}
