//! C16 (a): the repeat counter algebra over the full u64 state space.
use crate::sym::{any, assume};
use crate::witness;
use rustradio::Repeat;

/// Any call sequence of length `len` (each op symbolic: 0 again, 1 done, 2 count) from
/// `Repeat::finite(n)` (n symbolic, full u64) or `Repeat::infinite()`.
pub fn repeat_algebra(infinite: bool, len: usize) {
    let n: u64 = any();
    let mut r = if infinite {
        Repeat::infinite()
    } else {
        Repeat::finite(n)
    };
    // Reference: repetitions left (None = infinite), completed count.
    let mut left: Option<u64> = if infinite { None } else { Some(n) };
    let mut count: u64 = 0;
    for _ in 0..len {
        let op: u8 = any();
        assume(op < 3);
        match op {
            0 => {
                let a = r.again();
                count += 1;
                match left {
                    None => assert!(a, "infinite repeat must always continue"),
                    Some(l) => {
                        // One repetition completed; never below zero.
                        let l2 = if l > 0 { l - 1 } else { 0 };
                        left = Some(l2);
                        assert!(a == (l2 > 0), "again() must be true iff repetitions remain");
                    }
                }
            }
            1 => {
                let d = r.done();
                assert!(d == (left == Some(0)), "done() iff no repetitions left");
            }
            _ => {
                assert!(r.count() == count, "count() = number of again() calls");
            }
        }
    }
    witness!("sequence executed");
    std::mem::forget(r);
}
