//! C09: block verdicts are truthful: no misdirected wait, idle spin, or leaked window.
use crate::blk::*;
use crate::c08::{W8, bits_vec};
use crate::sym::{Bits, SymVal, any, assume};
use crate::witness;
use rustradio::Complex;
use rustradio::block::Block;
use rustradio::blocks::*;
use rustradio::stream::{ReadStream, WriteStream};

/// Drive a 1->1 block through `sched`, then probe the final verdict.
/// `gone`: drop the upstream end after the schedule (inputs ended) and require retirement.
pub fn verdicts_11<B: Block, I: Copy + SymVal, O: Copy, F: Fn(ReadStream<I>) -> (B, ReadStream<O>)>(
    mk: &F,
    l: usize,
    cap: usize,
    sched: &[(usize, usize)],
    gone: bool,
    rounds: usize,
) {
    // enough symbolic input for the schedule plus the probe
    let input = sym_vec::<I>(l + cap + 1);
    verdicts_11_in(mk, input, l, cap, cap, sched, gone, rounds)
}

/// Same with a caller-built input vector (its first `l` samples are offered by the schedule,
/// the rest is available to the probe) and separate capacities.
pub fn verdicts_11_in<B: Block, I: Copy, O: Copy, F: Fn(ReadStream<I>) -> (B, ReadStream<O>)>(
    mk: &F,
    input: Vec<I>,
    l: usize,
    cap_in: usize,
    cap: usize,
    sched: &[(usize, usize)],
    gone: bool,
    rounds: usize,
) {
    let mut r = Rig11::new(cap_in, cap, mk);
    let id_in = id_of(&r.tx);
    let id_out = id_of(&r.rx);
    let tx: Option<WriteStream<I>> = None;
    let mut last = Verdict::Again;
    let mut last_activity = 1usize;
    let limit = l; // the schedule itself only offers the first l samples
    for (f, d) in sched {
        let remaining = if r.next < limit { limit - r.next } else { 0 };
        let ff = if *f < remaining { *f } else { remaining };
        feed(&r.tx, &input, &mut r.next, ff, &[]);
        drain(&r.rx, *d, &mut r.out);
        let a0 = activity();
        last = work_once(&mut r.b);
        last_activity = activity() - a0;
        assert!(last != Verdict::Err, "work() returned an error");
        assert!(r.tx.verif_refcount() == 2, "work() returned while still holding a window on its input stream");
        assert!(r.rx.verif_refcount() == 2, "work() returned while still holding a window on its output stream");
    }
    if !gone {
        match last {
            Verdict::WaitStream(id, need) => {
                assert!(id == id_in || id == id_out, "WaitForStream names a stream that is not one of the block's streams");
                if id == id_in {
                    let have = buffered_w(&r.tx);
                    assert!(have < need, "waits for input although the requested amount is already buffered");
                    if need <= cap_in && r.next + (need - have) <= input.len() {
                        // provide what it asked for, on that stream alone
                        feed(&r.tx, &input, &mut r.next, need - have, &[]);
                        assert!(buffered_w(&r.tx) >= need, "BOUND: could not supply the requested input");
                        let a0 = activity();
                        let v2 = work_once(&mut r.b);
                        let progressed = activity() > a0;
                        let redirected = match v2 {
                            Verdict::WaitStream(id2, _) => id2 == id_out,
                            _ => false,
                        };
                        assert!(progressed || redirected, "supplying the requested input did not let the block make progress");
                        if !progressed {
                            // now blocked on output: free it all, then it must move
                            drain(&r.rx, usize::MAX, &mut r.out);
                            let a1 = activity();
                            let _ = work_once(&mut r.b);
                            assert!(activity() > a1, "block blocked on output does not progress when output is freed");
                        }
                    }
                } else {
                    let free = cap - buffered_r(&r.rx);
                    assert!(free < need, "waits for output space although the requested space is free");
                    if need <= cap {
                        drain(&r.rx, need - free, &mut r.out);
                        let a0 = activity();
                        let v2 = work_once(&mut r.b);
                        let progressed = activity() > a0;
                        let redirected = match v2 {
                            Verdict::WaitStream(id2, _) => id2 == id_in,
                            _ => false,
                        };
                        assert!(progressed || redirected, "freeing the requested output space did not let the block make progress");
                    }
                }
            }
            Verdict::Again => {
                if last_activity == 0 {
                    let a0 = activity();
                    let v2 = work_once(&mut r.b);
                    if v2 == Verdict::Again && activity() == a0 {
                        let v3 = work_once(&mut r.b);
                        assert!(!(v3 == Verdict::Again && activity() == a0), "idle spin: Again without consuming, producing or changing verdict");
                    }
                }
            }
            _ => {}
        }
    } else {
        // inputs end: upstream goes away; keep draining the output
        let Rig11 { b, tx: t, rx, next, out } = r;
        drop(t);
        let mut b = b;
        let mut out = out;
        let mut v = last;
        for _ in 0..rounds {
            drain(&rx, usize::MAX, &mut out);
            v = work_once(&mut b);
            assert!(v != Verdict::Err, "work() returned an error after its input ended");
            assert!(rx.verif_refcount() == 2, "work() returned while still holding a window on its output stream");
        }
        let ok = match v {
            Verdict::Eof => true,
            Verdict::WaitStream(id, _) => id == id_in,
            _ => false,
        };
        assert!(ok, "input ended and drained, but the block neither reports EOF nor waits on the ended input");
        witness!("OPTIONAL: probe done (upstream gone)");
        std::mem::forget((b, rx, out, tx, input, next));
        return;
    }
    witness!("OPTIONAL: probe done (upstream alive)");
    std::mem::forget((r, tx, input));
}

pub fn xor_const(l: usize, cap: usize, sched: &[(usize, usize)], gone: bool) {
    let c: u8 = any();
    verdicts_11(&|s| XorConst::new(s, c), l, cap, sched, gone, 3);
}
pub fn nrzi(l: usize, cap: usize, sched: &[(usize, usize)], gone: bool) {
    // NrziDecode accepts any u8; bit-valued input assumed by its users only
    verdicts_11(&|s: ReadStream<u8>| NrziDecode::new(s), l, cap, sched, gone, 3);
}
pub fn skip(l: usize, cap: usize, sched: &[(usize, usize)], gone: bool, s: usize) {
    verdicts_11(&|x: ReadStream<u8>| Skip::new(x, s), l, cap, sched, gone, 4);
}
pub fn delay(l: usize, cap: usize, sched: &[(usize, usize)], gone: bool, d: usize) {
    verdicts_11(&|x: ReadStream<u8>| Delay::new(x, d), l, cap, sched, gone, 5);
}
pub fn resampler(l: usize, cap: usize, sched: &[(usize, usize)], gone: bool, interp: usize, deci: usize) {
    let mk = |src: ReadStream<u8>| match RationalResampler::new(src, interp, deci) {
        Ok(x) => x,
        Err(e) => {
            std::mem::forget(e);
            panic!("RationalResampler::new failed");
        }
    };
    verdicts_11(&mk, l, cap, sched, gone, 5);
}
pub fn rtlsdr_decode(l: usize, cap: usize, sched: &[(usize, usize)], gone: bool) {
    verdicts_11(&|x: ReadStream<u8>| RtlSdrDecode::new(x), l, cap, sched, gone, 4);
}
pub fn binary_slicer(l: usize, cap: usize, sched: &[(usize, usize)], gone: bool) {
    verdicts_11(&|x: ReadStream<f32>| BinarySlicer::new(x), l, cap, sched, gone, 3);
}

/// Sources: VectorSource / ConstantSource with the output full / partly free / reader gone.
pub fn vector_source(len: usize, cap: usize, drains: &[usize], infinite: bool) {
    set_cap(cap);
    let data = sym_vec::<u8>(len);
    let mut b = VectorSourceBuilder::new(data);
    if infinite {
        b = b.repeat(rustradio::Repeat::infinite());
    }
    let (mut src, rx) = b.build();
    let id_out = id_of(&rx);
    let mut out = Collected::new();
    let mut spin = 0;
    for d in drains {
        drain(&rx, *d, &mut out);
        let a0 = activity();
        let v = work_once(&mut src);
        assert!(v != Verdict::Err);
        assert!(rx.verif_refcount() == 2, "work() returned while still holding a window on its output stream");
        match v {
            Verdict::WaitStream(id, need) => {
                assert!(id == id_out, "source waits on a stream that is not its output");
                assert!(cap - buffered_r(&rx) < need, "source waits for output space that is already free");
            }
            Verdict::Again => {
                if activity() == a0 {
                    spin += 1;
                } else {
                    spin = 0;
                }
                assert!(spin < 2, "idle spin: Again without producing");
            }
            Verdict::Eof => assert!(!infinite, "infinite source reported EOF"),
            _ => {}
        }
    }
    witness!("probe done");
    std::mem::forget((src, rx, out));
}

pub fn constant_source(cap: usize, drains: &[usize]) {
    set_cap(cap);
    let c: u8 = any();
    let (mut src, rx) = ConstantSource::new(c);
    let id_out = id_of(&rx);
    let mut out = Collected::new();
    for d in drains {
        drain(&rx, *d, &mut out);
        let free = cap - buffered_r(&rx);
        let a0 = activity();
        let v = work_once(&mut src);
        assert!(v != Verdict::Err);
        assert!(rx.verif_refcount() == 2, "work() returned while still holding a window on its output stream");
        match v {
            Verdict::WaitStream(id, need) => {
                assert!(id == id_out, "source waits on a stream that is not its output");
                assert!(cap - buffered_r(&rx) < need, "source waits for output space that is already free");
            }
            Verdict::Again => assert!(activity() > a0 || free == 0, "Again without producing although space was free"),
            _ => {}
        }
    }
    for i in 0..out.data.len() {
        assert!(out.data[i] == c, "ConstantSource emitted a different value");
    }
    witness!("probe done");
    std::mem::forget((src, rx, out));
}

/// Sinks: NullSink / VectorSink with input empty / available / writer gone.
pub fn sinks(kind: u8, cap: usize, feeds: &[usize], gone: bool) {
    let (tx, rxs) = rustradio::stream::verif_access::new_stream_sized::<u8>(cap);
    let id_in = id_of(&tx);
    let input = sym_vec::<u8>(8);
    let mut next = 0;
    let mut vs = None;
    let mut ns = None;
    if kind == 0 {
        ns = Some(NullSink::new(rxs));
    } else {
        vs = Some(VectorSink::new(rxs, 5));
    }
    let mut v = Verdict::Again;
    for f in feeds {
        feed(&tx, &input, &mut next, *f, &[]);
        v = match (&mut ns, &mut vs) {
            (Some(b), _) => work_once(b),
            (_, Some(b)) => work_once(b),
            _ => Verdict::Err,
        };
        assert!(v != Verdict::Err);
        assert!(tx.verif_refcount() == 2, "work() returned while still holding a window on its input stream");
        if let Verdict::WaitStream(id, need) = v {
            assert!(id == id_in, "sink waits on a stream that is not its input");
            if kind == 0 {
                assert!(buffered_w(&tx) < need, "sink waits for input that is already buffered");
            }
        }
    }
    if gone {
        drop(tx);
        v = match (&mut ns, &mut vs) {
            (Some(b), _) => work_once(b),
            (_, Some(b)) => work_once(b),
            _ => Verdict::Err,
        };
        let ok = match v {
            Verdict::Eof => true,
            Verdict::WaitStream(id, _) => id == id_in,
            _ => false,
        };
        assert!(ok, "input ended, but the sink neither reports EOF nor waits on the ended input");
        witness!("OPTIONAL: probe done (upstream gone)");
        std::mem::forget((ns, vs, input));
        return;
    }
    witness!("OPTIONAL: probe done (upstream alive)");
    std::mem::forget((ns, vs, tx, input));
}

/// AuDecode after a well-formed header: `extra` data bytes offered in the given pieces.
pub fn au_decode(sched: &[(usize, usize)], l: usize, cap_out: usize, gone: bool) {
    let mut input: Vec<u8> = Vec::with_capacity(48);
    for b in [0x2eu8, 0x73, 0x6e, 0x64, 0, 0, 0, 28, 0xff, 0xff, 0xff, 0xff, 0, 0, 0, 3, 0, 0, 0x1f, 0x40, 0, 0, 0, 1, 0, 0, 0, 0] {
        input.push(b);
    }
    for _ in 0..12 {
        input.push(any::<u8>());
    }
    let mk = |src: ReadStream<u8>| rustradio::au::AuDecode::new(src, 8000);
    verdicts_11_in(&mk, input, l, 40, cap_out, sched, gone, 6);
}

/// FftStream (stand-in engine) in the enumerated situations.
pub fn fft_stream(size: usize, l: usize, cap: usize, sched: &[(usize, usize)], gone: bool) {
    let mk = |src: ReadStream<Complex>| {
        rustradio::fft_stream::verif_access::with_engine(src, size, std::sync::Arc::new(crate::c10::FakeFft { n: size }))
    };
    verdicts_11(&mk, l, cap, sched, gone, 4);
}

/// AuDecode in its data state, enumerated situations (odd byte left over etc.).
pub fn au_decode_data(l: usize, cap_in: usize, cap_out: usize, sched: &[(usize, usize)], gone: bool) {
    let input = sym_vec::<u8>(l + cap_in + 1);
    let mk = |src: ReadStream<u8>| rustradio::au::verif_access::decoder_in_data_state(src, 8000);
    verdicts_11_in(&mk, input, l, cap_in, cap_out, sched, gone, 4);
}

/// VecToStream: a packet that does not fit the free output space must make the block wait on
/// its *output* (the input already holds what it needs).
pub fn vec_to_stream(l1: usize, l2: usize, cap: usize, drains: &[usize]) {
    use rustradio::stream::{NCWriteStream, new_nocopy_stream};
    set_cap(cap);
    let (tx, nrx): (NCWriteStream<Vec<u8>>, _) = new_nocopy_stream();
    tx.push(sym_vec::<u8>(l1), &[]);
    tx.push(sym_vec::<u8>(l2), &[]);
    let id_in = id_of(&tx);
    let (mut b, rx) = VecToStream::<u8>::new(nrx);
    let id_out = id_of(&rx);
    let mut out = Collected::new();
    for d in drains {
        drain(&rx, *d, &mut out);
        let queued = tx.verif_len();
        let free = cap - buffered_r(&rx);
        let a0 = activity();
        let v = work_once(&mut b);
        assert!(v != Verdict::Err);
        assert!(rx.verif_refcount() == 2, "work() returned while still holding a window on its output stream");
        if let Verdict::WaitStream(id, need) = v {
            assert!(id == id_in || id == id_out, "waits on a stream that is not its own");
            if id == id_in {
                assert!(queued < need, "waits for input although the requested packets are already queued (the output is what is short)");
            } else {
                assert!(free < need, "waits for output space that is already free");
            }
            assert!(activity() == a0);
        }
    }
    witness!("probe done");
    std::mem::forget((b, rx, tx, out));
}

/// AuEncode in the enumerated situations (header partly written, output full, ...).
pub fn au_encode(l: usize, cap_in: usize, cap_out: usize, sched: &[(usize, usize)], gone: bool) {
    let input = sym_vec::<f32>(l + cap_in + 1);
    let mk = |src: ReadStream<f32>| rustradio::au::AuEncode::new(src, rustradio::au::Encoding::Pcm16, 8000, 1);
    verdicts_11_in(&mk, input, l, cap_in, cap_out, sched, gone, 5);
}
