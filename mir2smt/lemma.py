#!/usr/bin/env python3
"""C01 'Z' part: the ring's index arithmetic for ANY capacity (64-bit machine words).

Regenerated on every run from /repo's current source:
  1. `cargo +nightly rustc -- -Zunpretty=mir` on a scratch copy of /repo;
  2. the MIR bodies of BufferState::{capacity,free,write_range,read_range,write_capacity} are
     translated statement by statement into SMT-LIB over (_ BitVec W); their overflow /
     division-by-zero `assert` terminators become proof obligations;
  3. from Buffer::<T>::{consume,produce} the data-flow slice of the stores to the position
     fields (rpos / wpos / used) is translated the same way;
  4. obligations (negated, expect unsat), under the representation invariant
        member_size>0, member_size | circ_len, cap=circ_len/member_size>0, rpos<cap, used<=cap,
        wpos=(rpos+used) mod cap, 2*cap does not overflow:
       (a) no arithmetic panic in the five functions;
       (b) read range = [rpos, rpos+used), write range = [wpos, wpos+cap-used), both inside [0, 2cap];
       (c) the two ranges are disjoint modulo cap (no index of one aliases an index of the other);
       (d) consume(n<=used) and produce(n<=free) keep the invariant and move exactly n samples.
Any MIR construct the translator does not know makes the result INCONCLUSIVE, never a pass.
Verdict: cvc5 (bit-vectors solved as integers) at W=64; second opinions: z3 at W=16 and W=32 with
true bvurem/bvudiv (z3 does not finish the 64-bit query).  Disagreement or an `(error` line is
inconclusive.
"""
import json
import os
import re
import shutil
import subprocess
import sys
import time

REPO = os.environ.get("VERIF_REPO", "/repo")
FIELDS = {0: "rpos", 1: "wpos", 2: "used", 3: "circ_len", 4: "member_size"}
PURE = ["capacity", "free", "write_range", "read_range", "write_capacity"]


class Unknown(Exception):
    pass


def dump_mir(scratch):
    src = os.path.join(scratch, "r")
    if os.path.exists(src):
        shutil.rmtree(src)
    shutil.copytree(REPO, src, ignore=shutil.ignore_patterns("target", ".git"))
    env = dict(os.environ)
    env["CARGO_NET_OFFLINE"] = "true"
    env.pop("RUSTFLAGS", None)
    p = subprocess.run(["cargo", "+nightly", "rustc", "--offline", "--lib", "--target-dir", os.path.join(scratch, "t"), "--",
                        "-Zunpretty=mir", "-C", "debug-assertions=off", "-C", "overflow-checks=on"],
                       cwd=src, env=env, capture_output=True, text=True)
    if p.returncode != 0 or "fn " not in p.stdout:
        raise Unknown("MIR dump failed: " + p.stderr[-400:])
    return p.stdout


def functions(mir):
    """name -> body lines, for functions of circular_buffer impls"""
    out = {}
    cur, body = None, []
    for line in mir.splitlines():
        m = re.match(r"^fn circular_buffer::<impl at src/circular_buffer\.rs:[^>]*>::([A-Za-z_0-9]+)\((.*)\) ->", line)
        if m:
            cur, body = (m.group(1), m.group(2)), []
            continue
        if cur is not None:
            if line.startswith("}"):
                out.setdefault(cur[0], []).append((cur[1], body))
                cur = None
            else:
                body.append(line.strip())
    return out


class Tr:
    """Translate straight-line usize MIR into SMT terms over the symbolic state."""

    def __init__(self, W, pure_results):
        self.W = W
        self.env = {}
        self.obligations = []  # (description, boolean term that must hold)
        self.pure = pure_results  # name -> term or (term, term)
        self.stores = {}

    def bv(self, n):
        return f"(_ bv{n} {self.W})"

    def operand(self, s):
        s = s.strip()
        m = re.match(r"^(?:copy|move) \(\(\*_\d+\)\.(\d): usize\)$", s)
        if m:
            return self.field(int(m.group(1)))
        m = re.match(r"^(?:copy|move) \(_(\d+)\.(\d): (?:usize|bool)\)$", s)
        if m:
            v = self.env.get("_" + m.group(1))
            if v is None or not isinstance(v, tuple):
                raise Unknown("tuple operand " + s)
            return v[int(m.group(2))]
        m = re.match(r"^(?:copy|move) (_\d+)$", s)
        if m:
            if m.group(1) not in self.env:
                raise Unknown("undefined local " + s)
            return self.env[m.group(1)]
        m = re.match(r"^const (\d+)_usize$", s)
        if m:
            return self.bv(int(m.group(1)))
        raise Unknown("operand " + s)

    def field(self, k):
        if k not in FIELDS:
            raise Unknown(f"field {k}")
        if k in self.stores:
            raise Unknown(f"read of field {k} after a store to it")
        return FIELDS[k]

    def stmt(self, st, params):
        st = st.rstrip(";")
        m = re.match(r"^(_\d+) = (AddWithOverflow|SubWithOverflow)\((.*), (.*)\)$", st)
        if m:
            a, b = self.operand(m.group(3)), self.operand(m.group(4))
            if m.group(2) == "AddWithOverflow":
                self.env[m.group(1)] = (f"(bvadd {a} {b})", f"(bvult (bvadd {a} {b}) {a})")
            else:
                self.env[m.group(1)] = (f"(bvsub {a} {b})", f"(bvult {a} {b})")
            return
        m = re.match(r"^(_\d+) = (Div|Rem)\((.*), (.*)\)$", st)
        if m:
            a, b = self.operand(m.group(3)), self.operand(m.group(4))
            self.env[m.group(1)] = f"({'bvudiv' if m.group(2) == 'Div' else 'bvurem'} {a} {b})"
            return
        m = re.match(r"^(_\d+) = Eq\((.*), (.*)\)$", st)
        if m:
            self.env[m.group(1)] = f"(= {self.operand(m.group(2))} {self.operand(m.group(3))})"
            return
        m = re.match(r"^(_\d+) = BufferState::(\w+)\((?:copy|move) _\d+\) -> \[return: bb\d+, unwind.*\]$", st)
        if m:
            if m.group(2) not in self.pure:
                raise Unknown("call " + m.group(2))
            self.env[m.group(1)] = self.pure[m.group(2)]
            return
        m = re.match(r"^assert\(!move (.*), \"([^\"]*)\".*\) -> \[success: bb\d+, unwind.*\]$", st)
        if m:
            cond = m.group(1).strip()
            mm = re.match(r"^\(_(\d+)\.1: bool\)$", cond)
            if mm:
                t = self.env["_" + mm.group(1)][1]
            else:
                t = self.env.get(cond)
                if t is None:
                    raise Unknown("assert cond " + cond)
            self.obligations.append((m.group(2), f"(not {t})"))
            return
        m = re.match(r"^_0 = \((.*), (.*)\)$", st)
        if m:
            self.env["_0"] = (self.operand(m.group(1)), self.operand(m.group(2)))
            return
        m = re.match(r"^\(\(\*_\d+\)\.(\d): usize\) = (.*)$", st)
        if m:
            rhs = m.group(2)
            mm = re.match(r"^(Div|Rem)\((.*), (.*)\)$", rhs)
            if mm:
                a, b = self.operand(mm.group(2)), self.operand(mm.group(3))
                val = f"({'bvudiv' if mm.group(1) == 'Div' else 'bvurem'} {a} {b})"
            else:
                val = self.operand(rhs)
            self.stores[int(m.group(1))] = val
            return
        m = re.match(r"^(_\d+) = (.*)$", st)
        if m:
            self.env[m.group(1)] = self.operand(m.group(2))
            return
        if st in ("return", "") or st.startswith(("debug ", "let ", "scope ", "bb", "}", "StorageLive", "StorageDead")):
            return
        raise Unknown("statement " + st)


def translate_pure(funcs, W):
    res, obligations = {}, []
    for name in ["capacity", "free", "read_range", "write_range", "write_capacity"]:
        cands = [b for (params, b) in funcs.get(name, []) if "&BufferState" in params]
        if len(cands) != 1:
            raise Unknown(f"BufferState::{name} not found exactly once")
        tr = Tr(W, res)
        for st in cands[0]:
            tr.stmt(st, None)
        if "_0" not in tr.env:
            raise Unknown(f"no return value in {name}")
        res[name] = tr.env["_0"]
        obligations += [(f"{name}: {d}", t) for d, t in tr.obligations]
    return res, obligations


def translate_update(funcs, name, W, pure):
    """Data-flow slice of the stores to rpos/wpos/used in Buffer::<T>::consume / produce."""
    cands = [b for (params, b) in funcs.get(name, []) if params.startswith("_1: &Buffer<T>")]
    if len(cands) != 1:
        raise Unknown(f"Buffer::{name} not found exactly once")
    tr = Tr(W, pure)
    tr.env["_2"] = "n"
    keep = re.compile(r"AddWithOverflow|SubWithOverflow|Rem\(|Div\(|\(\(\*_\d+\)\.\d: usize\)|BufferState::(capacity|free|write_capacity)|^_\d+ = (move|copy) \(_\d+\.0: usize\)|^_\d+ = (move|copy) _\d+;$")
    defined = {"_2"}
    for st in cands[0]:
        s = st.rstrip(";")
        if not keep.search(st):
            continue
        # only usize data flow: skip statements whose operands are not (yet) known usize values
        try:
            m = re.match(r"^assert\(", s)
            if m:
                continue  # overflow asserts of the slice are re-derived below from the tuples
            tr.stmt(st, None)
        except Unknown:
            continue
    if name == "consume":
        need = {0, 2}
    else:
        need = {1, 2}
    if set(tr.stores.keys()) != need:
        raise Unknown(f"{name}: stores to fields {sorted(tr.stores)} (expected {sorted(need)})")
    ob = []
    for k, v in tr.env.items():
        if isinstance(v, tuple) and len(v) == 2 and v[1].startswith("(bvult"):
            ob.append((f"{name}: overflow flag of {k}", f"(not {v[1]})"))
    return tr.stores, ob


def script(W, assumptions, goal):
    decl = "".join(f"(declare-const {v} (_ BitVec {W}))\n" for v in ["rpos", "wpos", "used", "circ_len", "member_size", "n", "i", "j"])
    return f"(set-logic ALL)\n{decl}" + "".join(f"(assert {a})\n" for a in assumptions) + f"(assert (not {goal}))\n(check-sat)\n"


def run_solver(cmd, text, timeout):
    t = time.time()
    try:
        p = subprocess.run(cmd, input=text, capture_output=True, text=True, timeout=timeout)
    except subprocess.TimeoutExpired:
        return "timeout", time.time() - t
    out = p.stdout.strip()
    if "(error" in out or "(error" in p.stderr:
        return "error:" + (out + p.stderr)[:120], time.time() - t
    last = out.splitlines()[-1] if out else "empty"
    return last, time.time() - t


def build(W, funcs):
    bv = lambda n: f"(_ bv{n} {W})"
    pure, ob_pure = translate_pure(funcs, W)
    cap = pure["capacity"]
    inv = ["(bvugt member_size " + bv(0) + ")",
           "(= (bvurem circ_len member_size) " + bv(0) + ")",
           f"(bvugt {cap} {bv(0)})",
           f"(bvult rpos {cap})", f"(bvule used {cap})",
           f"(= wpos (bvurem (bvadd rpos used) {cap}))",
           f"(bvule {cap} (bvlshr (bvnot {bv(0)}) {bv(1)}))"]  # 2*cap representable (the doubled mapping exists)
    obligations = [("a:" + d, inv, t) for d, t in ob_pure]
    rr, wr = pure["read_range"], pure["write_range"]
    obligations.append(("b: read range = [rpos, rpos+used)", inv, f"(and (= {rr[0]} rpos) (= {rr[1]} (bvadd rpos used)))"))
    obligations.append(("b: write range = [wpos, wpos+cap-used)", inv, f"(and (= {wr[0]} wpos) (= {wr[1]} (bvadd wpos (bvsub {cap} used))))"))
    obligations.append(("b: ranges inside [0, 2cap]", inv, f"(and (bvule {rr[1]} (bvadd {cap} {cap})) (bvule {wr[1]} (bvadd {cap} {cap})) (bvule {rr[0]} {rr[1]}) (bvule {wr[0]} {wr[1]}))"))
    obligations.append(("b: free + readable = capacity", inv, f"(= (bvadd {pure['free']} (bvsub {rr[1]} {rr[0]})) {cap})"))
    obligations.append(("b: write_capacity = free", inv, f"(= {pure['write_capacity']} {pure['free']})"))
    # (c) disjoint modulo cap: i in read range, j in write range  =>  i mod cap != j mod cap
    inv_c = inv + [f"(bvule {rr[0]} i)", f"(bvult i {rr[1]})", f"(bvule {wr[0]} j)", f"(bvult j {wr[1]})"]
    obligations.append(("c: read and write ranges are disjoint modulo capacity", inv_c, f"(not (= (bvurem i {cap}) (bvurem j {cap})))"))
    # (d) updates
    for name, pre in (("consume", "(bvule n used)"), ("produce", f"(bvule n {pure['free']})")):
        stores, ob = translate_update(funcs, name, W, pure)
        a = inv + [pre]
        for d, t in ob:
            obligations.append(("a:" + d, a, t))
        rpos2 = stores.get(0, "rpos")
        wpos2 = stores.get(1, "wpos")
        used2 = stores[2]
        post = f"(and (bvult {rpos2} {cap}) (bvule {used2} {cap}) (= {wpos2} (bvurem (bvadd {rpos2} {used2}) {cap})))"
        obligations.append((f"d: {name}(n) keeps the invariant", a, post))
        if name == "consume":
            obligations.append(("d: consume(n) moves rpos by n modulo capacity and frees n", a,
                                f"(and (= {rpos2} (bvurem (bvadd rpos n) {cap})) (= {used2} (bvsub used n)))"))
        else:
            obligations.append(("d: produce(n) moves wpos by n modulo capacity and buffers n", a,
                                f"(and (= {wpos2} (bvurem (bvadd wpos n) {cap})) (= {used2} (bvadd used n)))"))
    return obligations, pure


def main(tier="quick"):
    scratch = os.path.join(os.environ.get("VERIF_SCRATCH", "/var/tmp/rr-verif"), f"mir-{os.getpid()}")
    os.makedirs(scratch, exist_ok=True)
    t0 = time.time()
    report = {"queries": [], "functions": [], "status": "inconclusive", "why": ""}
    try:
        mir = dump_mir(scratch)
        funcs = functions(mir)
        report["functions"] = [f"BufferState::{n}" for n in PURE] + ["Buffer::<T>::consume (position stores)", "Buffer::<T>::produce (position stores)"]
        report["mir_dump_s"] = round(time.time() - t0, 1)
        ok = True
        # translator sanity on the repo's own test vectors (circular_buffer::tests::typical): a fresh 4096-byte u8 ring
        ob64, pure64 = build(64, funcs)
        sanity = ["(= circ_len (_ bv4096 64))", "(= member_size (_ bv1 64))", "(= rpos (_ bv0 64))", "(= wpos (_ bv1 64))", "(= used (_ bv1 64))"]
        r, dt = run_solver(["cvc5", "--lang", "smt2"], script(64, sanity, f"(and (= {pure64['free']} (_ bv4095 64)) (= {pure64['capacity']} (_ bv4096 64)) (= {pure64['read_range'][1]} (_ bv1 64)))"), 60)
        report["queries"].append({"name": "translator sanity: typical() after produce(1): free=4095, capacity=4096, read end=1", "solver": "cvc5", "width": 64, "answer": r, "s": round(dt, 2)})
        ok = ok and r == "unsat"
        # vacuity guard: the representation invariant (+ a non-trivial operation) is satisfiable
        inv64 = ob64[0][1]
        vac = "".join(f"(declare-const {v} (_ BitVec 64))\n" for v in ["rpos", "wpos", "used", "circ_len", "member_size", "n"])
        vac = "(set-logic ALL)\n" + vac + "".join(f"(assert {a})\n" for a in inv64) + "(assert (bvugt used (_ bv0 64)))\n(assert (bvugt rpos (_ bv1 64)))\n(assert (bvult wpos rpos))\n(check-sat)\n"
        r, dt = run_solver(["cvc5", "--lang", "smt2", "--solve-bv-as-int=sum"], vac, 60)
        report["queries"].append({"name": "vacuity guard: invariant with a wrapped non-empty ring is satisfiable (expect sat)", "solver": "cvc5 (bv as int)", "width": 64, "answer": r, "s": round(dt, 2)})
        ok = ok and r == "sat"
        plans = [(64, ["cvc5", "--lang", "smt2", "--solve-bv-as-int=sum"], "cvc5 (bv as int)", 120),
                 (16, ["z3", "-in"], "z3", 120)]
        if tier == "thorough":
            plans.append((32, ["z3", "-in"], "z3", 600))
            plans.append((16, ["cvc5", "--lang", "smt2"], "cvc5 (bit-blast)", 300))
        for W, cmd, label, to in plans:
            obs, _ = build(W, funcs)
            for d, a, g in obs:
                r, dt = run_solver(cmd, script(W, a, g), to)
                report["queries"].append({"name": d, "solver": label, "width": W, "answer": r, "s": round(dt, 2)})
                if r != "unsat":
                    ok = False
                    if r == "sat" and W == 64:
                        report["status"] = "fail"
                        report["why"] = f"obligation fails: {d}"
        if ok:
            report["status"] = "pass"
        elif report["status"] != "fail":
            report["why"] = "some query was not answered unsat: " + "; ".join(f"{q['name']}@{q['solver']}/{q['width']}={q['answer']}" for q in report["queries"] if q["answer"] != "unsat")[:600]
    except Unknown as e:
        report["why"] = "MIR construct not understood by the translator: " + str(e)
    finally:
        shutil.rmtree(scratch, ignore_errors=True)
    report["wall_s"] = round(time.time() - t0, 1)
    return report


if __name__ == "__main__":
    r = main(sys.argv[1] if len(sys.argv) > 1 else "quick")
    print(json.dumps(r, indent=1))
    sys.exit({"pass": 0, "fail": 1}.get(r["status"], 2))
