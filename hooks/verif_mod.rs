// Body of `rustradio::verif` (included from /repo/src/lib.rs under
// `#[cfg(rustradio_verif)]`).  Nothing in here is compiled into a normal build.
//
// * stream capacity override
// * stream activity counters + optional activity callback
// * scheduling points (`yield_point`) with an installable callback
// * `sync::{Mutex, Condvar}`: cooperative, schedulable stand-ins for std's
// * `collections::BTreeMap`: sorted-Vec stand-in with the API subset the ring uses
// * `KString`: fixed-capacity tag string
// * `VerifSort`: stable compare-exchange sort shadowing `<[T]>::sort_by_key`
use std::sync::atomic::{AtomicUsize, Ordering};

// NOTE (Kani 0.68): a mutable static whose initial bytes equal those of some constant in
// std (e.g. eight zero bytes, like `RawVecInner::ZERO_CAP`) may share storage with that
// constant in the generated goto program, so that storing to the static changes the
// constant (observed: `CONSUMED.fetch_add(1)` turned every later `Vec::new()` into a Vec of
// capacity 1).  Every mutable static below therefore starts from a distinct non-zero
// bit pattern, and the accessors subtract it.
const B_SAMPLES: usize = 0x5a17_0000_0000_1001;
const B_PRODUCED: usize = 0x5a17_0000_0000_2002;
const B_CONSUMED: usize = 0x5a17_0000_0000_3003;
const B_PCALLS: usize = 0x5a17_0000_0000_4004;
const B_CCALLS: usize = 0x5a17_0000_0000_5005;
const B_ACT: usize = 0x5a17_0000_0000_6006;
const B_HOOK: usize = 0x5a17_0000_0000_7007;
const B_LOCKS: usize = 0x5a17_0000_0000_8008;

/// Stream capacity override in samples; 0 = library default.
pub struct Cell0(AtomicUsize, usize);
impl Cell0 {
    pub fn load(&self, o: Ordering) -> usize {
        self.0.load(o).wrapping_sub(self.1)
    }
    pub fn store(&self, v: usize, o: Ordering) {
        self.0.store(v.wrapping_add(self.1), o)
    }
    pub fn fetch_add(&self, v: usize, o: Ordering) -> usize {
        self.0.fetch_add(v, o).wrapping_sub(self.1)
    }
}
pub static STREAM_SAMPLES: Cell0 = Cell0(AtomicUsize::new(B_SAMPLES), B_SAMPLES);

/// Set the capacity (in samples) of every stream created from now on.
pub fn set_stream_samples(n: usize) {
    STREAM_SAMPLES.store(n, Ordering::SeqCst);
}

pub const PRODUCE: u32 = 0;
pub const CONSUME: u32 = 1;
/// Samples committed on any sample stream since process start / last reset.
pub static PRODUCED: Cell0 = Cell0(AtomicUsize::new(B_PRODUCED), B_PRODUCED);
/// Samples consumed on any sample stream.
pub static CONSUMED: Cell0 = Cell0(AtomicUsize::new(B_CONSUMED), B_CONSUMED);
/// Number of non-empty commit calls.
pub static PRODUCE_CALLS: Cell0 = Cell0(AtomicUsize::new(B_PCALLS), B_PCALLS);
/// Number of consume calls (including consume(0)).
pub static CONSUME_CALLS: Cell0 = Cell0(AtomicUsize::new(B_CCALLS), B_CCALLS);
static ACT_HOOK: Cell0 = Cell0(AtomicUsize::new(B_ACT), B_ACT);

/// Install a callback run at every commit/consume (kind, n).
pub fn set_activity_hook(f: Option<fn(u32, usize)>) {
    ACT_HOOK.store(f.map(|f| f as usize).unwrap_or(0), Ordering::SeqCst);
}

/// Called by the ring on every commit (n>0) and every consume.
pub fn activity(kind: u32, n: usize) {
    if kind == PRODUCE {
        PRODUCED.fetch_add(n, Ordering::SeqCst);
        PRODUCE_CALLS.fetch_add(1, Ordering::SeqCst);
    } else {
        CONSUMED.fetch_add(n, Ordering::SeqCst);
        CONSUME_CALLS.fetch_add(1, Ordering::SeqCst);
    }
    let h = ACT_HOOK.load(Ordering::SeqCst);
    if h != 0 {
        // SAFETY: only ever stored from a `fn(u32, usize)`.
        let f: fn(u32, usize) = unsafe { std::mem::transmute(h) };
        f(kind, n);
    }
}

/// (samples produced, samples consumed) so far.
pub fn activity_counts() -> (usize, usize) {
    (
        PRODUCED.load(Ordering::SeqCst),
        CONSUMED.load(Ordering::SeqCst),
    )
}

/// Sum of samples moved (produced + consumed): the "progress" measure.
pub fn activity_total() -> usize {
    PRODUCED.load(Ordering::SeqCst) + CONSUMED.load(Ordering::SeqCst)
}

static HOOK: Cell0 = Cell0(AtomicUsize::new(B_HOOK), B_HOOK);
/// Install a callback run at every scheduling point.
pub fn set_yield_hook(f: Option<fn(u32)>) {
    HOOK.store(f.map(|f| f as usize).unwrap_or(0), Ordering::SeqCst);
}

/// Scheduling point ids.
pub const YP_LOCK: u32 = 1;
pub const YP_UNLOCK: u32 = 2;

/// A scheduling point.
pub fn yield_point(id: u32) {
    let h = HOOK.load(Ordering::SeqCst);
    if h != 0 {
        // SAFETY: only ever stored from a `fn(u32)`.
        let f: fn(u32) = unsafe { std::mem::transmute(h) };
        f(id);
    }
}

/// Number of `lock()` calls on the stand-in mutex (all mutexes).
pub static LOCKS: Cell0 = Cell0(AtomicUsize::new(B_LOCKS), B_LOCKS);

/// Fixed-capacity string used for tag keys/values in verification builds.
#[derive(Clone, Copy, PartialEq, PartialOrd)]
pub struct KString {
    len: u8,
    b: [u8; 23],
}
impl KString {
    pub fn as_str(&self) -> &str {
        // SAFETY: only ever filled from valid `str` data.
        unsafe { std::str::from_utf8_unchecked(&self.b[..self.len as usize]) }
    }
    fn from_bytes(s: &[u8]) -> Self {
        assert!(
            s.len() <= 23,
            "verification build: tag strings are limited to 23 bytes"
        );
        let mut b = [0u8; 23];
        let mut i = 0;
        while i < s.len() {
            b[i] = s[i];
            i += 1;
        }
        Self {
            len: s.len() as u8,
            b,
        }
    }
}
impl From<&str> for KString {
    fn from(s: &str) -> Self {
        Self::from_bytes(s.as_bytes())
    }
}
impl From<std::string::String> for KString {
    fn from(s: std::string::String) -> Self {
        Self::from_bytes(s.as_bytes())
    }
}
impl From<&std::string::String> for KString {
    fn from(s: &std::string::String) -> Self {
        Self::from_bytes(s.as_bytes())
    }
}
impl std::ops::Deref for KString {
    type Target = str;
    fn deref(&self) -> &str {
        self.as_str()
    }
}
impl std::fmt::Debug for KString {
    fn fmt(&self, f: &mut std::fmt::Formatter<'_>) -> std::fmt::Result {
        f.write_str(self.as_str())
    }
}
impl std::fmt::Display for KString {
    fn fmt(&self, f: &mut std::fmt::Formatter<'_>) -> std::fmt::Result {
        f.write_str(self.as_str())
    }
}

/// Schedulable stand-ins for `std::sync::{Mutex, Condvar}`.
///
/// Trusted about std: a `Mutex` gives mutual exclusion; a condition variable wait
/// releases the mutex, may return at any moment, and re-acquires it.
pub mod sync {
    use std::cell::{Cell, UnsafeCell};
    use std::sync::{LockResult, TryLockError, TryLockResult};
    pub struct Mutex<T> {
        locked: Cell<bool>,
        data: UnsafeCell<T>,
    }
    // SAFETY: cooperative single-threaded scheduling only.
    unsafe impl<T> Send for Mutex<T> {}
    // SAFETY: cooperative single-threaded scheduling only.
    unsafe impl<T> Sync for Mutex<T> {}
    pub struct MutexGuard<'a, T> {
        m: &'a Mutex<T>,
    }
    impl<T> Mutex<T> {
        pub fn new(t: T) -> Self {
            Self {
                locked: Cell::new(false),
                data: UnsafeCell::new(t),
            }
        }
        pub fn lock(&self) -> LockResult<MutexGuard<'_, T>> {
            super::yield_point(super::YP_LOCK);
            super::LOCKS.fetch_add(1, std::sync::atomic::Ordering::SeqCst);
            assert!(
                !self.locked.get(),
                "verif mutex: lock while held (deadlock)"
            );
            self.locked.set(true);
            Ok(MutexGuard { m: self })
        }
        pub fn try_lock(&self) -> TryLockResult<MutexGuard<'_, T>> {
            if self.locked.get() {
                return Err(TryLockError::WouldBlock);
            }
            self.locked.set(true);
            Ok(MutexGuard { m: self })
        }
        pub fn is_locked(&self) -> bool {
            self.locked.get()
        }
        /// Verification accessor: the protected data without locking.
        ///
        /// # Safety
        /// Caller must be the only running (cooperative) thread and must not hold a guard.
        #[allow(clippy::mut_from_ref)]
        pub unsafe fn peek(&self) -> &mut T {
            // SAFETY: see above.
            unsafe { &mut *self.data.get() }
        }
    }
    impl<T> Drop for MutexGuard<'_, T> {
        fn drop(&mut self) {
            self.m.locked.set(false);
            super::yield_point(super::YP_UNLOCK);
        }
    }
    impl<T> std::ops::Deref for MutexGuard<'_, T> {
        type Target = T;
        fn deref(&self) -> &T {
            // SAFETY: guard holds the lock.
            unsafe { &*self.m.data.get() }
        }
    }
    impl<T> std::ops::DerefMut for MutexGuard<'_, T> {
        fn deref_mut(&mut self) -> &mut T {
            // SAFETY: guard holds the lock.
            unsafe { &mut *self.m.data.get() }
        }
    }
    impl<T> std::fmt::Debug for Mutex<T> {
        fn fmt(&self, f: &mut std::fmt::Formatter<'_>) -> std::fmt::Result {
            write!(f, "VerifMutex")
        }
    }
    #[derive(Debug, Default)]
    pub struct Condvar {}
    pub struct WaitTimeoutResult(pub bool);
    impl WaitTimeoutResult {
        pub fn timed_out(&self) -> bool {
            self.0
        }
    }
    impl Condvar {
        pub fn new() -> Self {
            Self {}
        }
        pub fn notify_all(&self) {}
        pub fn notify_one(&self) {}
        /// "Wait while the condition holds, at most for the timeout": if the
        /// condition is false return at once; otherwise release the mutex (peers
        /// may run at the unlock/lock scheduling points), re-acquire it, and return
        /// whatever the condition says then (covers "woken because satisfied" and
        /// "timeout fired at an arbitrary moment").
        pub fn wait_timeout_while<'a, T, F>(
            &self,
            guard: MutexGuard<'a, T>,
            _dur: std::time::Duration,
            mut condition: F,
        ) -> LockResult<(MutexGuard<'a, T>, WaitTimeoutResult)>
        where
            F: FnMut(&mut T) -> bool,
        {
            let mut guard = guard;
            if !condition(&mut *guard) {
                return Ok((guard, WaitTimeoutResult(false)));
            }
            let m = guard.m;
            drop(guard);
            let mut guard = match m.lock() {
                Ok(g) => g,
                Err(e) => e.into_inner(),
            };
            let timed_out = condition(&mut *guard);
            Ok((guard, WaitTimeoutResult(timed_out)))
        }
    }
}

/// Ordered map stand-in with the subset of `BTreeMap`'s API the ring uses.
///
/// Trusted about std: `BTreeMap` is an ordered map with unique keys; `range` panics on
/// inverted bounds.
pub mod collections {
    use std::ops::Bound;
    #[derive(Debug)]
    pub struct BTreeMap<K, V> {
        v: Vec<(K, V)>, // sorted by key, unique keys
    }
    pub struct Entry<'a, K, V> {
        m: &'a mut BTreeMap<K, V>,
        k: K,
    }
    impl<K: Ord + Copy, V> Default for BTreeMap<K, V> {
        fn default() -> Self {
            Self::new()
        }
    }
    impl<K: Ord + Copy, V> BTreeMap<K, V> {
        pub fn new() -> Self {
            Self { v: Vec::new() }
        }
        pub fn len(&self) -> usize {
            self.v.len()
        }
        pub fn is_empty(&self) -> bool {
            self.v.is_empty()
        }
        fn pos(&self, k: &K) -> Result<usize, usize> {
            let mut i = 0;
            while i < self.v.len() {
                if self.v[i].0 == *k {
                    return Ok(i);
                }
                if self.v[i].0 > *k {
                    return Err(i);
                }
                i += 1;
            }
            Err(i)
        }
        pub fn entry(&mut self, k: K) -> Entry<'_, K, V> {
            Entry { m: self, k }
        }
        pub fn get(&self, k: &K) -> Option<&V> {
            match self.pos(k) {
                Ok(i) => Some(&self.v[i].1),
                Err(_) => None,
            }
        }
        pub fn insert(&mut self, k: K, v: V) -> Option<V> {
            match self.pos(&k) {
                Ok(i) => Some(std::mem::replace(&mut self.v[i].1, v)),
                Err(i) => {
                    self.v.insert(i, (k, v));
                    None
                }
            }
        }
        pub fn remove(&mut self, k: &K) -> Option<V> {
            match self.pos(k) {
                Ok(i) => Some(self.v.remove(i).1),
                Err(_) => None,
            }
        }
        pub fn clear(&mut self) {
            self.v.clear();
        }
        pub fn range(&self, r: (Bound<K>, Bound<K>)) -> Range<'_, K, V> {
            // Same panics as std: start > end, or equal with both excluded.
            match (&r.0, &r.1) {
                (Bound::Included(a), Bound::Included(b))
                | (Bound::Included(a), Bound::Excluded(b))
                | (Bound::Excluded(a), Bound::Included(b)) => {
                    assert!(a <= b, "range start is greater than range end in BTreeMap")
                }
                (Bound::Excluded(a), Bound::Excluded(b)) => {
                    assert!(
                        a < b,
                        "range start and end are equal and excluded in BTreeMap"
                    )
                }
                _ => {}
            }
            Range { m: self, i: 0, r }
        }
        pub fn iter(&self) -> Iter<'_, K, V> {
            Iter { m: self, i: 0 }
        }
    }
    pub struct Range<'a, K, V> {
        m: &'a BTreeMap<K, V>,
        i: usize,
        r: (Bound<K>, Bound<K>),
    }
    impl<'a, K: Ord + Copy, V> Iterator for Range<'a, K, V> {
        type Item = (&'a K, &'a V);
        fn next(&mut self) -> Option<Self::Item> {
            while self.i < self.m.v.len() {
                let e = &self.m.v[self.i];
                self.i += 1;
                let k = &e.0;
                let lo = match &self.r.0 {
                    Bound::Included(a) => k >= a,
                    Bound::Excluded(a) => k > a,
                    Bound::Unbounded => true,
                };
                let hi = match &self.r.1 {
                    Bound::Included(b) => k <= b,
                    Bound::Excluded(b) => k < b,
                    Bound::Unbounded => true,
                };
                if lo && hi {
                    return Some((&e.0, &e.1));
                }
            }
            None
        }
    }
    pub struct Iter<'a, K, V> {
        m: &'a BTreeMap<K, V>,
        i: usize,
    }
    impl<'a, K, V> Iterator for Iter<'a, K, V> {
        type Item = (&'a K, &'a V);
        fn next(&mut self) -> Option<Self::Item> {
            if self.i < self.m.v.len() {
                let e = &self.m.v[self.i];
                self.i += 1;
                Some((&e.0, &e.1))
            } else {
                None
            }
        }
    }
    impl<'a, K: Ord + Copy, V: Default> Entry<'a, K, V> {
        pub fn or_default(self) -> &'a mut V {
            let i = match self.m.pos(&self.k) {
                Ok(i) => i,
                Err(i) => {
                    self.m.v.insert(i, (self.k, V::default()));
                    i
                }
            };
            &mut self.m.v[i].1
        }
    }
    impl<'a, K, V> IntoIterator for &'a BTreeMap<K, V> {
        type Item = (&'a K, &'a V);
        type IntoIter = Iter<'a, K, V>;
        fn into_iter(self) -> Self::IntoIter {
            Iter { m: self, i: 0 }
        }
    }
}

/// Stand-in for std's stable `sort_by_key` (a trait method on `Vec<T>` is found
/// before the inherent `<[T]>::sort_by_key` reached through deref).  Stable bubble
/// network: every compare-exchange has loop-counter indices only.
///
/// Trusted about std: `sort_by_key` is a stable sort.
pub trait VerifSort<T> {
    fn sort_by_key<K: Ord, F: FnMut(&T) -> K>(&mut self, f: F);
}
impl<T> VerifSort<T> for Vec<T> {
    fn sort_by_key<K: Ord, F: FnMut(&T) -> K>(&mut self, mut f: F) {
        let n = self.len();
        let mut pass = 0;
        while pass + 1 < n {
            let mut i = 0;
            while i + 1 + pass < n {
                if f(&self[i]) > f(&self[i + 1]) {
                    self.swap(i, i + 1);
                }
                i += 1;
            }
            pass += 1;
        }
    }
}

/// Scheduling point when dropped (i.e. at scope exit).
pub struct YieldOnDrop(pub u32);
impl Drop for YieldOnDrop {
    fn drop(&mut self) {
        yield_point(self.0);
    }
}
