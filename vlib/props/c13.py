"""C13: HDLC deframer: every valid frame is recovered, nothing invalid is emitted (decomposed)."""
from vlib.engine import Harness, select, fold

INFO = {
    "rule": "crc_equiv: byte count enumerated, bytes symbolic. find_right_crc: length, fix flag enumerated; data, corruption position symbolic. "
            "step_equiv: automaton mode, number of collected bits (0..40), min/max size and checksum flag enumerated; collected bits, flag/ones "
            "register and the input bit symbolic. work_is_fold: bit count and split point enumerated, bits symbolic.",
    "bounds": "CRC inputs 0..4 bytes; repair on 1..3 byte messages; step equivalence for 0..33 collected bits in Synced and 0..30 in FinalCheck "
              "(frames <= 2 bytes incl. FCS reach the emit path; 31+ collected bits exhaust 14 GB in CBMC), min_size in {0,1,2,3}, max_size in {1,2,4}, "
              "bit fixing off in the step proof.",
    "outside": "frames longer than 2 bytes in the emit path (the automaton's length-dependent logic is len%8, len/8>=min, len>max*8, nb>=2; CRC and "
               "byte packing are checked separately for up to 4 bytes); work()==fold of update_state (symbolic collected-bit lengths inside the real code: no "
               "result within 900 s); the reference automaton's own relation to the HDLC definition is the C13 'reference run' part (not yet built); "
               "the exclusive/inclusive meaning of max_size is taken from the code.",
    "stubs": ["std::fmt::format -> empty", "log macros: no logger installed"],
    "assumptions": ["Kani/CBMC soundness", "reference automaton harness/src/c13.rs::ref_step and bitwise CRC crc_ref are the specification"],
}
M = {"unsynced": 0, "synced": 1, "final": 2}


def all_harnesses():
    hs = []
    for n in range(0, 5):
        hs.append(Harness(f"c13_crc_{n}", f"crate::c13::crc_equiv({n})", unwind=10, unit="calc_crc", shape={"bytes": n}, core=n in (0, 2, 3)))
    hs.append(Harness("c13_bits2byte", "crate::c13::bits2byte_equiv()", unwind=10, unit="bits2byte", shape={}, core=True))
    for n in (1, 2, 3):
        for fix in (False, True):
            hs.append(Harness(f"c13_fixcrc_{n}_{'fix' if fix else 'nofix'}", f"crate::c13::find_right_crc_props({n}, {str(fix).lower()})",
                              unwind=10, unit="find_right_crc", shape={"bytes": n, "fix": fix}, core=(n == 1), timeout=1500))
    hs.append(Harness("c13_step_unsynced", "crate::c13::step_equiv(0, 0, 1, 2, true)", unwind=10, unit="update_state(Unsynced)",
                      shape={"mode": "unsynced"}, core=True))
    for ln in range(0, 34):
        for mx in (1, 2, 4):
            core = ln in (0, 8, 9, 16, 17, 33) and mx in (1, 2)
            hs.append(Harness(f"c13_step_synced_l{ln}_max{mx}", f"crate::c13::step_equiv(1, {ln}, 1, {mx}, true)", unwind=max(14, ln + 3),
                              unit="update_state(Synced)", shape={"mode": "synced", "len": ln, "max_size": mx}, core=core))
    for ln in range(0, 31):
        for mn in (0, 1, 2, 3):
            for ck in (True, False):
                core = ln in (6, 7, 15, 22, 23) and mn in (0, 2)
                h = Harness(f"c13_step_final_l{ln}_min{mn}_{'ck' if ck else 'nock'}",
                            f"crate::c13::step_equiv(2, {ln}, {mn}, 8, {str(ck).lower()})", unwind=max(14, ln + 3),
                            unit="update_state(FinalCheck)", shape={"mode": "final", "len": ln, "min_size": mn, "checksum": ck},
                            core=core, timeout=1500)
                h.priority = (ln == 23)  # the only quick-tier length whose frame can hold an FCS (CRC compare / emit path)
                hs.append(h)
    # constructor defaults (no set_checksum call): checksum checking is on by default
    for ln in (7, 15, 23):
        for mn in (0, 1, 2):
            h = Harness(f"c13_step_final_default_l{ln}_min{mn}", f"crate::c13::step_equiv2(2, {ln}, {mn}, 8, true, false)", unwind=max(14, ln + 3),
                        unit="update_state(FinalCheck), default configuration", shape={"mode": "final", "len": ln, "min_size": mn, "checksum": "default(on)"},
                        core=(ln in (7, 15)), timeout=1500)
            h.priority = ln in (7, 15) and mn in (0, 1)
            hs.append(h)
    return hs


def harnesses(tier, seed):
    return select(all_harnesses(), tier, seed, 10)
