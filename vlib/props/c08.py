"""C08: every block is a pure stream function (output independent of chunking)."""
import itertools
from vlib.engine import Harness, select

INFO = {
    "rule": "Per block instantiation: input length L, stream capacity and a delivery schedule (list of (feed f, drain d) steps, then "
            "flush rounds) are enumerated; input samples and block parameters are symbolic. Instance A gets everything at once with "
            "ample output space; instance B follows the schedule on capacity-`cap` streams; B's output must be a prefix of A's after "
            "every step and equal after the flush.",
    "bounds": "L<=4 (bit blocks <=6), capacity 2..3, schedules of <=3 steps with f in {0,1,cap}, d in {0,1,cap}, flush rounds as listed per instance.",
    "outside": "Hilbert (rayon), FftFilter/FftFilterFloat/FftStream numeric content (rustfft), SymbolSync, Il2pDeframer, wpcr, QuadratureDemod (atan2), ToText (formatting); longer inputs; larger capacities.",
    "stubs": ["heap ring stand-in + sync/map/sort stand-ins (see C01)", "std::fmt::format -> empty"],
    "assumptions": ["Kani/CBMC soundness", "real ring == FIFO spec within C01/C02 bounds is checked separately; here the real ring is executed"],
}


def rs_sched(s):
    return "&[" + ", ".join(f"({f}, {d})" for f, d in s) + "]"


def sname(s):
    return "_".join(f"f{f}d{d}" for f, d in s)


def schedules(cap, full):
    fs = [1, cap]
    ds = [0, 1, cap]
    if not full:
        return [
            [(1, cap), (1, cap), (1, cap)],          # drip, output always drained
            [(cap, 0), (cap, 0), (cap, 1)],          # input larger than output space; output full
            [(cap, 0), (1, 1), (cap, 1)],            # exactly one free output slot
            [(1, 0), (cap, 1), (1, 0)],
            [(cap, cap), (cap, 0), (1, 1)],
        ]
    out = schedules(cap, False)
    for steps in itertools.product(itertools.product(fs, ds), repeat=2):
        out.append(list(steps))
    return out


# (key, rust fn, extra args list, L, full-schedule?, unit, flush rounds extra)
BLOCKS = [
    ("xorconst", "xor_const", [""], 4, True, "XorConst<u8>::work (sync macro)"),
    ("addconst", "add_const", [""], 3, False, "AddConst::work (sync macro)"),
    ("mulconst", "multiply_const", [""], 3, False, "MultiplyConst::work (sync macro)"),
    ("nrzi", "nrzi", [""], 4, False, "NrziDecode::work (sync macro)"),
    ("descrambler", "descrambler", [""], 4, False, "Descrambler::work (sync macro)"),
    ("slicer", "binary_slicer", [""], 3, False, "BinarySlicer::work (sync macro)"),
    ("mag2", "complex_to_mag2", [""], 1, False, "ComplexToMag2::work (sync macro)"),
    ("iir", "single_pole_iir", [""], 2, False, "SinglePoleIirFilter<f32>::work (sync macro)"),
    ("cac", "correlate_access_code", [", 2, 0", ", 3, 1"], 4, False, "CorrelateAccessCode::work (sync macro)"),
    ("skip", "skip", [", 0", ", 1", ", 3"], 4, True, "Skip::work"),
    ("delay", "delay", [", 0", ", 1", ", 2"], 3, True, "Delay::work"),
    ("resamp", "resampler", [f", {i}, {d}" for i in (1, 2, 3) for d in (1, 2, 3) if (i, d) in ((1, 2), (2, 1), (3, 2), (2, 3), (3, 1), (1, 3), (1, 1))], 3, True, "RationalResampler::work"),
    ("rtlsdr", "rtlsdr_decode", [""], 4, True, "RtlSdrDecode::work"),
]


def all_harnesses():
    hs = []
    for key, fn, extras, L, full, unit in BLOCKS:
        for ei, extra in enumerate(extras):
            for cap in (2, 3):
                scs = schedules(cap, full)
                core_set = {sname(s) for s in schedules(cap, False)}
                for s in scs:
                    br = L + 3
                    pn = extra.replace(", ", "_").replace(" ", "")
                    name = f"c08_{key}{pn}_c{cap}_{sname(s)}"
                    core_list = [sname(x) for x in schedules(cap, False)]
                    idx = core_list.index(sname(s)) if sname(s) in core_set else -1
                    core = (key == "rtlsdr" and cap == 3 and idx in (1, 3)) or key != "mag2" and cap == 2 and idx >= 0 and ((key in ("delay", "resamp", "skip", "rtlsdr") and idx in (1, 2, 4)) or
                                                      (key == "xorconst" and idx in (0, 1, 2)) or (ei == 0 and idx == 2))
                    if key == "resamp" and extra not in (", 2, 1", ", 3, 2", ", 1, 2"):
                        core = False
                    hs.append(Harness(name, f"crate::c08::{fn}({L}, {cap}, {rs_sched(s)}, {br}{extra})",
                                      unwind=max(L * 3, 8) + 3, unit=unit,
                                      shape={"block": key, "params": extra.strip(", "), "L": L, "cap": cap,
                                             "schedule": s, "flush_rounds": br}, core=core, timeout=900))
    return hs


def extra_harnesses():
    hs = []
    # FirFilter (shared harness body with C11)
    for nt in (1, 2, 3):
        for deci in (1, 2, 3):
            base = nt + deci - 1
            for cap in (max(base, 2), base + 1):
                for si, s in enumerate(([(1, cap)] * 3, [(cap, 0), (cap, 0), (cap, 1)], [(cap, 0), (1, 1), (cap, 1)], [(cap, cap), (cap, 0), (1, 1)])):
                    hs.append(Harness(f"c08_fir_k{nt}_d{deci}_c{cap}_{sname(s)}", f"crate::c08::fir({nt}, {deci}, 6, {cap}, {rs_sched(s)}, 10)",
                                      unwind=16, unit="FirFilter::work", timeout=1500,
                                      shape={"block": "fir", "taps": nt, "deci": deci, "L": 6, "cap": cap, "schedule": s},
                                      core=(nt == 2 and deci == 2 and cap == base + 1 and si == 2) or (nt == 2 and deci == 1 and cap == 3 and si == 1)))
    # AuDecode: header 28 bytes + data; input capacity must hold the 20 header-rest bytes
    for nd in (4, 5, 7):
        for si, s in enumerate(([(28, 0), (3, 1), (64, 8)], [(7, 0), (7, 0), (14, 0), (3, 0), (2, 1)], [(33, 8), (1, 8), (64, 8)], [(28, 0), (1, 0), (1, 0), (64, 1)])):
            for cap_out in (1, 8):
                hs.append(Harness(f"c08_audec_n{nd}_s{si}_o{cap_out}", f"crate::c08::au_decode({nd}, 40, {cap_out}, {rs_sched(s)}, 14)", unwind=44,
                                  unit="AuDecode::work", timeout=1800, shape={"block": "audecode", "data_bytes": nd, "cap_out": cap_out, "schedule": s},
                                  core=False))
    for L in (4, 5):
        for cap in (1, 2):
            for si, s in enumerate(([(1, cap)] * 3, [(cap, 0), (cap, 0), (cap, 1)], [(2, 0), (2, 0), (1, 1)], [(L, 0), (0, 1), (0, 1)])):
                hs.append(Harness(f"c08_zerocross_l{L}_c{cap}_s{si}", f"crate::c08::zero_crossing({L}, {max(cap, 2) if si == 3 else cap}, {rs_sched(s)}, {L + 4})",
                                  unwind=14, unit="ZeroCrossing::work", timeout=1800,
                                  shape={"block": "zerocrossing", "L": L, "cap": cap, "schedule": s}, core=False))
    # AuDecode data state only (cheap): odd/even piece sizes
    for nd in (4, 5, 6):
        for ci, (cap_in, cap_out) in enumerate(((3, 2), (5, 1), (4, 3))):
            for si, s in enumerate(([(3, 0), (2, 1), (3, 1)], [(1, 0), (1, 0), (3, 2)], [(cap_in, 0), (cap_in, 0), (1, 1)], [(2, 2), (3, 0), (1, 0)])):
                hs.append(Harness(f"c08_audata_n{nd}_i{cap_in}o{cap_out}_s{si}", f"crate::c08::au_decode_data({nd}, {cap_in}, {cap_out}, {rs_sched(s)}, {nd + 4})",
                                  unwind=14, unit="AuDecode::work (data state)", timeout=1200,
                                  shape={"block": "audecode-data", "data_bytes": nd, "cap_in": cap_in, "cap_out": cap_out, "schedule": s},
                                  core=(nd == 5 and ci == 0 and si in (0, 1)) or (nd == 6 and ci == 2 and si == 3)))
    for l in (1, 2):
        for cap in (2, 3, 5):
            for si, s in enumerate(([(1, 1)] * 3, [(2, 0), (0, 2), (2, 1)])):
                hs.append(Harness(f"c08_auenc_l{l}_c{cap}_s{si}", f"crate::c08::au_encode({l}, {cap}, {rs_sched(s)}, {40 // 1})", unwind=46,
                                  unit="AuEncode::work", timeout=1800, shape={"block": "auencode", "L": l, "cap": cap, "schedule": s},
                                  core=False))
    return hs


def harnesses(tier, seed):
    hs = all_harnesses() + extra_harnesses()
    for h in hs:
        # the only instances of these hand-written blocks: take them before the many sync-macro ones
        h.priority = h.core and h.shape.get("block") in ("fir", "audecode-data")
    return select(hs, tier, seed, 4, budget=2000)
