"""C07: runners stop on cancellation and report block failures as errors (single-threaded runner only)."""
from vlib.engine import Harness, select, fold
from vlib.props.c06 import GSTUBS

INFO = {
    "rule": "Chain src -> probe0 -> probe1 -> null sink on Graph::run; failing position, failing call index k, cancelling call index j, "
            "source length, finite/infinite source enumerated; data symbolic.",
    "bounds": "cancellation: chain src -> probe -> probe -> null sink, j in 1..3, source length 3 (finite) or infinite repeat, capacity 2, pre-cancelled token. "
              "error propagation: graphs of stream-less blocks (0..2 blocks that end at once, then a block failing on its k-th call, k in 1..3); the same "
              "through a chain with streams is enumerated in the thorough tier but has not finished within 1500 s per instance.",
    "outside": "MTGraph (needs OS threads: thread::Builder::spawn/JoinHandle cannot be executed or stubbed in Kani) - in particular its "
               "join().expect() behaviour on a failing block is NOT decided by this check; cancellation from another thread at arbitrary "
               "instructions (the single-threaded runner only polls between passes, so 'a block cancels during its j-th call' covers every "
               "observable moment).",
    "stubs": ["Instant::now/elapsed, graph::get_cpu_time, thread::sleep, Graph::generate_stats, std::fmt::format", "heap ring + stand-ins (C01)"],
    "assumptions": ["Kani/CBMC soundness"],
}


def all_harnesses():
    hs = []
    for pos in (0, 1):
        for k in (1, 2, 3):
            for (ln, inf) in ((1, False), (3, False), (2, True)):
                core = False  # the error path through a chain with streams does not finish in 1500 s (drop glue of rustradio::Error)
                hs.append(Harness(f"c07_fail_p{pos}_k{k}_l{ln}_{'inf' if inf else 'fin'}",
                                  f"crate::c06::failing_block({pos}, {k}, {ln}, 2, {str(inf).lower()})", unwind=28,
                                  unit="Graph::run error propagation", stubs=GSTUBS, timeout=1500,
                                  shape={"position": pos, "k": k, "len": ln, "infinite": inf}, core=core))
    for before in (0, 1, 2):
        for k in (1, 2, 3):
            h = Harness(f"c07_failmin_b{before}_k{k}", f"crate::c06::failing_minimal({before}, {k})", unwind=28,
                        unit="Graph::run error propagation (stream-less blocks)", stubs=GSTUBS, timeout=1500,
                        shape={"blocks_before": before, "k": k}, core=False)  # 330-480 s each here, ~3x that on the check machine: thorough tier only
            h.quick_timeout = 870
            h.priority = True
            hs.append(h)
    for j in (1, 2, 3):
        for (ln, inf) in ((3, False), (2, True)):
            hs.append(Harness(f"c07_cancel_j{j}_l{ln}_{'inf' if inf else 'fin'}",
                              f"crate::c06::cancelling_block({j}, {ln}, 2, {str(inf).lower()}, false)", unwind=28,
                              unit="Graph::run cancellation", stubs=GSTUBS, timeout=1500,
                              shape={"j": j, "len": ln, "infinite": inf, "pre_cancelled": False}, core=(j in (1, 2))))
    hs.append(Harness("c07_precancel", "crate::c06::cancelling_block(0, 2, 2, true, true)", unwind=28,
                      unit="Graph::run cancellation", stubs=GSTUBS, shape={"pre_cancelled": True}, core=True))
    return hs


def harnesses(tier, seed):
    return select(all_harnesses(), tier, seed, 2)
