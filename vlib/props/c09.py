"""C09: block verdicts are truthful: no misdirected wait, idle spin, or leaked window."""
from vlib.engine import Harness, select, fold
from vlib.props.c08 import rs_sched, sname

INFO = {
    "rule": "Per block: a concrete prefix schedule puts the block into an enumerated stream situation (input empty/short/ample x output "
            "full/one slot/ample x upstream alive/gone); samples symbolic. After every work(): no window handle is still held. The final "
            "verdict is probed: WaitForStream must name one of the block's own streams that really lacks the requested amount, and supplying "
            "exactly that amount on that stream alone must lead to stream activity (or a wait on the other side); Again twice without any "
            "stream activity is an idle spin; once the input has ended the block must report EOF or wait on the ended input.",
    "bounds": "capacity 2..3, prefix schedules of <=3 steps, input length <=4; blocks: XorConst (sync macro), NrziDecode, Skip, Delay, "
              "RationalResampler, RtlSdrDecode, BinarySlicer, VectorSource, ConstantSource, NullSink, VectorSink.",
    "outside": "FftStream (kani-compiler 0.68 internal error on its rayon branch), SignalSource*, AuEncode/AuDecode, VecToStream, StreamToPdu, FileSource/TcpSource (I/O) - not yet built; "
               "MTGraph's use of the verdicts (C05).",
    "stubs": ["heap ring + stand-ins (C01)", "std::fmt::format -> empty"],
    "assumptions": ["Kani/CBMC soundness", "a stream end is identified by the Arc pointer it holds (single-field structs)"],
}


def situations(cap):
    # (prefix schedule, description)
    return [
        ([(0, 0)], "input empty, output empty"),
        ([(1, 0)], "one sample, output empty"),
        ([(cap, 0)], "input full, output empty"),
        ([(cap, 0), (cap, 0)], "input refilled, output full"),
        ([(cap, 0), (cap, 0), (0, 1)], "input pending, one output slot"),
        ([(cap, 0), (0, cap)], "input drained, output freed"),
        ([(cap, 0), (cap, 0), (0, 0)], "output full twice"),
    ]


BLOCKS = [("xorconst", "xor_const", [""], "XorConst (sync macro)"), ("nrzi", "nrzi", [""], "NrziDecode"),
          ("skip", "skip", [", 0", ", 1", ", 3"], "Skip"), ("delay", "delay", [", 0", ", 1", ", 3"], "Delay"),
          ("resamp", "resampler", [", 1, 2", ", 2, 1", ", 3, 2"], "RationalResampler"), ("rtlsdr", "rtlsdr_decode", [""], "RtlSdrDecode"),
          ("slicer", "binary_slicer", [""], "BinarySlicer")]


def rl(xs):
    return "&[" + ", ".join(map(str, xs)) + "]"


def all_harnesses():
    hs = []
    for key, fn, extras, unit in BLOCKS:
        for ei, extra in enumerate(extras):
            for cap in (2, 3):
                for si, (s, desc) in enumerate(situations(cap)):
                    for gone in (False, True):
                        pn = extra.replace(", ", "_").replace(" ", "")
                        core = cap == 2 and ((not gone and si in (3, 4)) or (gone and si == 3) or (not gone and si == 0 and key in ("delay", "rtlsdr"))) and (ei == 0 or (key in ("delay", "resamp") and ei == 1))
                        hs.append(Harness(f"c09_{key}{pn}_c{cap}_s{si}_{'gone' if gone else 'alive'}",
                                          f"crate::c09::{fn}(4, {cap}, {rs_sched(s)}, {str(gone).lower()}{extra})", unwind=12,
                                          unit=unit + "::work verdict", timeout=900,
                                          shape={"block": key, "params": extra.strip(', '), "cap": cap, "situation": desc, "upstream_gone": gone}, core=core))
    # AuDecode: header (28 bytes) then data in pieces; situations after the header
    for si, (s, desc) in enumerate((([(28, 0), (28, 0), (28, 0), (1, 0)], "header done, 1 data byte"), ([(28, 0), (28, 0), (28, 0), (3, 0), (0, 0)], "3 data bytes, then 1 left"),
                                    ([(28, 0), (28, 0), (28, 0), (4, 0), (0, 0)], "output full"), ([(7, 0), (7, 0)], "header incomplete"))):
        for cap_out in (1, 4):
            for gone in (False, True):
                hs.append(Harness(f"c09_audec_s{si}_o{cap_out}_{'gone' if gone else 'alive'}", f"crate::c09::au_decode({rs_sched(s)}, 40, {cap_out}, {str(gone).lower()})",
                                  unwind=44, unit="AuDecode::work verdict", timeout=1500,
                                  shape={"block": "AuDecode", "situation": desc, "cap_out": cap_out, "upstream_gone": gone}, core=False))
    for ci, (cap_in, cap_out) in enumerate(((3, 2), (4, 1))):
        for si, (s, desc) in enumerate((([(1, 0)], "one byte of a sample"), ([(3, 0)], "three bytes: one sample + one byte"), ([(3, 0), (0, 0)], "one byte left over"),
                                        ([(cap_in, 0), (cap_in, 0)], "output full"), ([(2, 0), (1, 1)], "odd remainder after progress"))):
            for gone in (False, True):
                hs.append(Harness(f"c09_audata_i{cap_in}o{cap_out}_s{si}_{'gone' if gone else 'alive'}",
                                  f"crate::c09::au_decode_data(4, {cap_in}, {cap_out}, {rs_sched(s)}, {str(gone).lower()})", unwind=12,
                                  unit="AuDecode::work verdict (data state)", timeout=900,
                                  shape={"block": "AuDecode(data)", "cap_in": cap_in, "cap_out": cap_out, "situation": desc, "upstream_gone": gone},
                                  core=False))
    for cap in (1, 2):
        for ln in (1, 2, 3):
            for inf in (False, True):
                for di, dr in enumerate(([0, 0, 0], [cap, 0, 1, cap], [1, 1, 1, 1, 1])):
                    hs.append(Harness(f"c09_vsrc_c{cap}_l{ln}_{'inf' if inf else 'fin'}_d{di}",
                                      f"crate::c09::vector_source({ln}, {cap}, {rl(dr)}, {str(inf).lower()})", unwind=28, unit="VectorSource::work verdict",
                                      shape={"block": "VectorSource", "cap": cap, "len": ln, "infinite": inf, "drains": dr}, timeout=900,
                                      core=(cap == 2 and ln == 3 and di in (0, 1))))
        for di, dr in enumerate(([0, 0, 0], [cap, 0, 1, cap])):
            hs.append(Harness(f"c09_csrc_c{cap}_d{di}", f"crate::c09::constant_source({cap}, {rl(dr)})", unwind=12, unit="ConstantSource::work verdict",
                              shape={"block": "ConstantSource", "cap": cap, "drains": dr}, core=(cap == 2), timeout=900))
    for (cap_in, cap_out) in ((2, 3), (1, 5)):
        for si, (s, desc) in enumerate((([(0, 0)], "header not started, no input"), ([(1, 0), (0, 0)], "output full while the header is pending"),
                                        ([(1, 0), (0, cap_out), (0, 0)], "header continues after draining"), ([(2, 0), (0, 1)], "one free output byte"))):
            for gone in (False, True):
                hs.append(Harness(f"c09_auenc_i{cap_in}o{cap_out}_s{si}_{'gone' if gone else 'alive'}",
                                  f"crate::c09::au_encode(2, {cap_in}, {cap_out}, {rs_sched(s)}, {str(gone).lower()})", unwind=34,
                                  unit="AuEncode::work verdict", timeout=1500,
                                  shape={"block": "AuEncode", "cap_in": cap_in, "cap_out": cap_out, "situation": desc, "upstream_gone": gone}, core=False))
    for cap in (2, 3):
        for (l1, l2) in ((cap, 1), (1, cap), (cap + 1, 1), (2, 2)):
            for di, dr in enumerate(([0, 0, 0], [0, 1, 0, cap])):
                hs.append(Harness(f"c09_v2s_c{cap}_{l1}_{l2}_d{di}", f"crate::c09::vec_to_stream({l1}, {l2}, {cap}, {rl(dr)})", unwind=28,
                                  unit="VecToStream::work verdict", shape={"block": "VecToStream", "cap": cap, "l1": l1, "l2": l2, "drains": dr},
                                  core=(cap == 2 and di == 0 and (l1, l2) in ((2, 1), (1, 2))), timeout=900))
    for kind, nm in ((0, "NullSink"), (1, "VectorSink")):
        for cap in (2,):
            for fi, fd in enumerate(([0], [1, 0], [2, 2, 2], [2, 2, 1, 0])):
                for gone in (False, True):
                    hs.append(Harness(f"c09_{nm.lower()}_f{fi}_{'gone' if gone else 'alive'}", f"crate::c09::sinks({kind}, {cap}, {rl(fd)}, {str(gone).lower()})",
                                      unwind=12, unit=f"{nm}::work verdict", shape={"block": nm, "cap": cap, "feeds": fd, "upstream_gone": gone},
                                      core=(fi == 0 or (fi == 1 and kind == 0)), timeout=900))
    return hs


def harnesses(tier, seed):
    return select(all_harnesses(), tier, seed, 6, budget=1400)
