"""C15: input content can never crash a block, decoder or parser (partial)."""
from vlib.engine import Harness, select, fold

INFO = {
    "rule": "One 'no check fails' instance per (unit, size class): lengths / offsets that act as sizes are enumerated, every content byte, bit and "
            "float is symbolic with no assumption beyond its type (bit-stream blocks: values 0/1, the documented precondition). Oracle = CBMC's "
            "panic, arithmetic-overflow, bounds, division and unwinding checks on the real code; an error *value* is an allowed outcome.",
    "bounds": "AuDecode: data-offset field in {0,4,7,8,9,16,23} (too-short headers: decided), {24,28,32} (well-formed length with arbitrary encoding/rate/channel "
              "fields: enumerated, but no instance finishes in 900 s - not established), all other header bytes symbolic, 0..3 data bytes, fed in pieces of 3/4/64; "
              "HdlcDeframer: 10 arbitrary bits through work() (thorough tier only; the no-panic claim for the automaton rests on C13's step harnesses, which start from "
              "arbitrary states with up to 30 collected bits), min_size in {0,1,2}, checksum on/off, bit fixing on/off; Midpointer: empty burst only decided (bursts of 1..3 floats are enumerated but CBMC does not finish in 2400 s: float division + sort); "
              "VecToStream: packet lengths 0..cap+1; ZeroCrossing: 6 floats.",
    "outside": "SigMF metadata and archives (serde_json, tar), SymbolSync (float-dependent loop without derivable bound), wpcr::process_one (rustfft), "
               "Il2pDeframer (not built), TcpSource (C14), anything needing more than ~6 floats.",
    "stubs": ["heap ring + stand-ins (C01)", "std::fmt::format -> empty", "log: no logger installed"],
    "assumptions": ["Kani/CBMC soundness (dev profile: overflow checks on, as in this crate's release profile)"],
}


def all_harnesses():
    hs = []
    for off in (0, 4, 7, 8, 9, 16, 23, 24, 28, 32):
        for (piece, works) in ((64, 4), (4, 12), (3, 16)):
            for tail in (0, 3):
                core = off in (0, 7, 8, 9, 24, 28) and piece == 64 and tail == 3
                hs.append(Harness(f"c15_au_o{off}_p{piece}_t{tail}", f"crate::c15::au_decode({off}, false, {tail}, {piece}, {works})", unwind=40,
                                  unit="AuDecode::work", shape={"data_offset": off, "piece": piece, "tail": tail}, core=core, timeout=900))
    hs.append(Harness("c15_au_magic", "crate::c15::au_decode(24, true, 2, 64, 4)", unwind=40, unit="AuDecode::work",
                      shape={"data_offset": 24, "magic": "symbolic"}, core=True, timeout=900))
    for mn in (0, 1, 2):
        for ck in (True, False):
            for fix in (False, True):
                if fix and not ck:
                    continue
                hs.append(Harness(f"c15_hdlc_min{mn}_{'ck' if ck else 'nock'}_{'fix' if fix else 'nofix'}",
                                  f"crate::c15::hdlc(10, {mn}, 2, {str(ck).lower()}, {str(fix).lower()})", unwind=16, unit="HdlcDeframer::work",
                                  shape={"bits": 10, "min_size": mn, "max_size": 2, "checksum": ck, "fix_bits": fix}, core=False, timeout=2400))
    for n in range(0, 4):
        hs.append(Harness(f"c15_midpointer_{n}", f"crate::c15::midpointer({n})", unwind=8, unit="Midpointer::work", shape={"burst": n}, core=(n == 0), timeout=2400))
    for cap in (2, 3):
        for l1 in range(0, cap + 2):
            for l2 in (0, 1, cap + 1):
                hs.append(Harness(f"c15_v2s_c{cap}_{l1}_{l2}", f"crate::c15::vec_to_stream({l1}, {l2}, {cap})", unwind=28, unit="VecToStream::work",
                                  shape={"cap": cap, "l1": l1, "l2": l2}, core=(cap == 2 and l2 == 1), timeout=900))
    for split in (0, 2, 5):
        for cap in (1, 2):
            hs.append(Harness(f"c15_zc_s{split}_c{cap}", f"crate::c15::zero_crossing(6, {split}, {cap})", unwind=10, unit="ZeroCrossing::work",
                              shape={"n": 6, "split": split, "cap": cap}, core=(split == 2), timeout=1500))
    return hs


def harnesses(tier, seed):
    return select(all_harnesses(), tier, seed, 4)
