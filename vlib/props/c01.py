"""C01: streams deliver exactly the committed samples, once, in order."""
from vlib.engine import Harness, select, fold
from vlib.props.ringcommon import TYPES, rs_list, pre_states

INFO = {
    "rule": "Step instances: (element type, capacity, rpos, used, operation, size) enumerated completely within the bound; "
            "buffered sample bytes and everything written into the write window symbolic. History instances: feasible op scripts "
            "from Buffer::new through the public API. Refusal instances: oversized commit/consume must never return.",
    "bounds": "capacity 1..4 samples (u8), 1..3 (u16,u32,Complex), 1..2 ([u8;16]); one operation from EVERY valid pre-state "
              "(rpos<cap, used<=cap, wpos=(rpos+used)%cap) => by induction histories of any length over these capacities; "
              "histories <=5 ops as an accessor-free cross-check.",
    "outside": "real mmap aliasing (C18, replaced by a heap stand-in that mirrors committed bytes); capacities >4 samples for the data path; "
               "other element types; std Mutex/BTreeMap/sort internals (stand-ins).",
    "stubs": ["Circ::new/Map::drop -> heap allocation + commit-time mirror (cfg rustradio_verif)",
              "std::sync::{Mutex,Condvar} -> cooperative stand-ins", "std::collections::BTreeMap -> ordered Vec stand-in",
              "<[T]>::sort_by_key -> stable compare-exchange network", "tag String -> 23-byte KString", "std::fmt::format -> empty"],
    "assumptions": ["Kani/CBMC soundness", "std Mutex = mutual exclusion; BTreeMap = ordered map; sort_by_key = stable sort",
                    "the specification is the FIFO in harness/src/ring.rs::Spec"],
}

OPN = {"produce": "crate::ring::OP_PRODUCE", "consume": "crate::ring::OP_CONSUME"}


def step(tk, cap, rpos, used, op, n, core=False, pre_tags=(), ctags=(), prop="c01"):
    ty = TYPES[tk][0]
    name = f"{prop}_step_{tk}_c{cap}_r{rpos}_u{used}_{op[0]}{n}"
    if pre_tags or ctags:
        name += "_t" + "".join(map(str, pre_tags)) + "_k" + "".join(map(str, ctags))
    call = f"crate::ring::step::<{ty}>({cap}, {rpos}, {used}, {rs_list(pre_tags)}, {OPN[op]}, {n}, {rs_list(ctags)})"
    return Harness(name, call, unwind=max(cap + 3 + len(pre_tags) + len(ctags), 19 if tk == 'b16' else 0), unit=f"Buffer::{op}",
                   shape={"type": tk, "cap": cap, "rpos": rpos, "used": used, "op": op, "n": n,
                          "pre_tags": list(pre_tags), "commit_tags": list(ctags)}, core=core)


def scripts(cap, length):
    """all feasible scripts of exactly `length` ops: produce n in 1..free, consume m in 0..used"""
    out = []

    def rec(used, acc):
        if len(acc) == length:
            out.append(tuple(acc))
            return
        for n in range(1, cap - used + 1):
            rec(used + n, acc + [("produce", n)])
        for m in range(0, used + 1):
            if acc and acc[-1] == ("consume", 0) and m == 0:
                continue
            rec(used - m, acc + [("consume", m)])
    rec(0, [])
    return out


def all_harnesses():
    hs = []
    caps = {"u8": [1, 2, 3, 4], "u16": [1, 2, 3], "u32": [1, 2, 3], "c64": [1, 2, 3], "b16": [1, 2]}
    for tk, cl in caps.items():
        for cap in cl:
            for (r, u) in pre_states(cap):
                for n in range(0, cap - u + 1):
                    core = (tk == "u8" and cap == 2) or (tk == "c64" and cap == 2 and r == 1) or \
                           (tk == "b16" and cap == 2 and r == 1 and n == cap - u) or (tk == "u8" and cap == 3 and r == 2 and n == cap - u)
                    hs.append(step(tk, cap, r, u, "produce", n, core))
                for m in range(0, u + 1):
                    core = (tk == "u8" and cap == 2) or (tk == "c64" and cap == 2 and r == 1) or \
                           (tk == "u8" and cap == 3 and r == 2 and m in (0, u))
                    hs.append(step(tk, cap, r, u, "consume", m, core))
    # refusals
    for cap in (1, 2, 3):
        for (r, u) in pre_states(cap):
            for op, n in (("produce", cap - u + 1), ("consume", u + 1)):
                hs.append(Harness(f"c01_refuse_u8_c{cap}_r{r}_u{u}_{op[0]}{n}",
                                  f"crate::ring::refuse::<u8>({cap}, {r}, {u}, {OPN[op]}, {n})", unwind=cap + 3,
                                  unit=f"Buffer::{op}", expect="refuse",
                                  shape={"type": "u8", "cap": cap, "rpos": r, "used": u, "op": "refuse-" + op, "n": n},
                                  core=(cap == 2 and r == 1)))
    hs.append(Harness("c01_nondividing_elem3_buf8", "crate::ring::nondividing()", unwind=8, unit="Buffer (element size not dividing the buffer)",
                      expect="refuse", shape={"type": "[u8;3]", "bytes": 8}, core=True))
    # histories
    for cap, length, tk in ((2, 4, "u8"), (2, 5, "u8"), (3, 4, "u32")):
        for i, sc in enumerate(scripts(cap, length)):
            body = ", ".join(f"({OPN[o]}, {n}, usize::MAX)" for o, n in sc)
            nm = "".join(f"{o[0]}{n}" for o, n in sc)
            hs.append(Harness(f"c01_hist_{tk}_c{cap}_{nm}", f"crate::ring::history::<{TYPES[tk][0]}>({cap}, &[{body}])",
                              unwind=max(cap, length) + 3, unit="Buffer history",
                              shape={"type": tk, "cap": cap, "script": nm}, timeout=900,
                              core=(length == 4 and cap == 2 and i % 9 == 0)))
    return hs


def main(argv):
    """Z part (MIR -> SMT lemma, any capacity) first, then the Kani part; both must hold."""
    import json, os, sys
    from vlib import engine
    sys.path.insert(0, os.path.join(engine.VERIF, "mir2smt"))
    import lemma
    tier = "quick"
    for i, a in enumerate(argv):
        if a == "--tier" and i + 1 < len(argv):
            tier = argv[i + 1]
    tier = os.environ.get("VERIF_TIER", tier) if "--tier" not in argv else tier
    only = "--only" in argv or "--replay" in argv or "--list" in argv
    z = None
    if not only:
        z = lemma.main(tier if tier in ("quick", "thorough") else "quick")
        engine.log(f"Z lemma (MIR->SMT): {z['status']} {z['why'][:200]} ({len(z['queries'])} queries, {z['wall_s']}s)")
    info = dict(INFO)
    if z is not None:
        unsat = [q for q in z["queries"] if q["answer"] == "unsat"]
        info["extra"] = {"smt_lemma": {"status": z["status"], "why": z["why"], "functions_translated_from_MIR": z["functions"],
                                       "smt_queries": len(z["queries"]), "answered_unsat": len(unsat),
                                       "solvers_agree": z["status"] == "pass", "solver_wall_s": z["wall_s"],
                                       "queries": z["queries"][:60],
                                       "bounds": "any capacity, 64-bit words (cvc5, bit-vectors as integers); z3 second opinion at 16 (thorough: 32) bit; positions only, not memory or tags"}}
    rc = engine.main_check("C01", harnesses, info, argv)
    if z is not None and z["status"] == "fail":
        path = os.path.join(engine.EVID, "replays", "C01-smt-lemma.json")
        os.makedirs(os.path.dirname(path), exist_ok=True)
        json.dump(z, open(path, "w"), indent=1)
        print(f"VIOLATION property=C01 replay={path}")
        return 1
    if z is not None and z["status"] != "pass" and rc == 0:
        print("INCONCLUSIVE property=C01 SMT lemma: " + z["why"][:200])
        return 2
    return rc


def harnesses(tier, seed):
    return fold(select(all_harnesses(), tier, seed, 10), 4)
