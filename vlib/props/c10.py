"""C10: exactly-specified blocks compute their documented function on all inputs."""
from vlib.engine import Harness, select, fold
from vlib.props.c08 import schedules, rs_sched, sname

INFO = {
    "rule": "Per block: input length, capacity, parameters that are sizes (delay, skip, interp/deci, code length) and one of the C08 delivery "
            "schedules are enumerated; samples and value-like parameters (constants, LFSR mask/seed/length, access code, allowed differences) are symbolic. "
            "Both the one-shot and the scheduled delivery are compared element-wise and in count with a reference written from the documentation.",
    "bounds": "input length 3..4 (2 for float pipelines), capacity 2..3, delay 0..2, skip 0..3, interp/deci in {1,2,3}, code length 2..3.",
    "outside": "ToText (its output is format!), FftStream (numeric content: rustfft; framing: kani-compiler 0.68 internal error on the rayon branch reachable from work()), VectorSource/ConstantSource (C16/C09), StreamToPdu (std HashMap: SipHash/RandomState not "
               "encodable in budget), VecToStream/BurstTagger tags (C12).",
    "stubs": ["heap ring + stand-ins (C01)", "std::fmt::format -> empty"],
    "assumptions": ["Kani/CBMC soundness", "references in harness/src/c10.rs are the specification (written from doc comments)",
                    "integer arithmetic blocks are instantiated with a wrapping 8-bit newtype (primitive ints panic on overflow by design)"],
}

# key, fn, param strings, L, unit
B11 = [
    ("addconst", "add_const", [""], 3, "AddConst"),
    ("mulconst", "multiply_const", [""], 3, "MultiplyConst"),
    ("xorconst", "xor_const", [""], 4, "XorConst"),
    ("slicer", "binary_slicer", [""], 3, "BinarySlicer"),
    ("mag2", "complex_to_mag2", [""], 2, "ComplexToMag2"),
    ("nrzi", "nrzi", [""], 4, "NrziDecode"),
    ("descrambler", "descrambler", [""], 3, "Descrambler"),
    ("cac", "correlate_access_code", [", 2, 0", ", 3, 1"], 4, "CorrelateAccessCode"),
    ("skip", "skip", [", 0", ", 1", ", 3"], 4, "Skip"),
    ("delay", "delay", [", 0", ", 1", ", 2"], 3, "Delay"),
    ("resamp", "resampler", [f", {i}, {d}" for (i, d) in ((1, 1), (1, 2), (2, 1), (3, 2), (2, 3), (3, 1), (1, 3), (2, 2))], 3, "RationalResampler"),
    ("rtlsdr", "rtlsdr_decode", [""], 4, "RtlSdrDecode"),
]
S3 = {2: [[(1, 1, 2), (2, 0, 0), (0, 2, 1)], [(2, 2, 0), (2, 2, 1), (1, 1, 2)]],
      3: [[(1, 3, 3), (3, 0, 0), (0, 1, 1)], [(3, 3, 0), (1, 1, 1), (3, 3, 3)]]}


def rs3(s):
    return "&[" + ", ".join(f"({a}, {b}, {c})" for a, b, c in s) + "]"


def all_harnesses():
    hs = []
    for key, fn, extras, L, unit in B11:
        for ei, extra in enumerate(extras):
            for cap in (2, 3):
                for si, s in enumerate(schedules(cap, False)):
                    pn = extra.replace(", ", "_").replace(" ", "")
                    core = (cap == 2 and si in (1, 2) and (ei == 0 or key in ("resamp", "delay") and ei in (1, 2)) and key != "mag2") or (key == "rtlsdr" and cap == 3 and si in (1, 3))
                    hs.append(Harness(f"c10_{key}{pn}_c{cap}_{sname(s)}", f"crate::c10::{fn}({L}, {cap}, {rs_sched(s)}, {L + 3}{extra})",
                                      unwind=(70 if key == "descrambler" else max(L * 3, 8) + 3), unit=unit + "::work", timeout=900,
                                      shape={"block": key, "params": extra.strip(", "), "L": L, "cap": cap, "schedule": s}, core=core))
    for cap in (2, 3):
        for si, s in enumerate(S3[cap]):
            for kind, nm in ((0, "add"), (1, "xor")):
                for (la, lb) in ((3, 3), (3, 2), (1, 3)):
                    hs.append(Harness(f"c10_{nm}_c{cap}_s{si}_a{la}b{lb}", f"crate::c10::two_in({kind}, {la}, {lb}, {cap}, {rs3(s)}, 6)",
                                      unwind=12, unit=("Add" if kind == 0 else "Xor") + "::work", timeout=900,
                                      shape={"block": nm, "la": la, "lb": lb, "cap": cap, "schedule": s}, core=(cap == 2 and si == 0 and la == 3 and lb == 2)))
            pass
    # FftStream framing (c10::fft_stream with a stand-in engine) is written but cannot be compiled: kani-compiler 0.68
    # panics (intrinsics.rs:243) on the rayon branch reachable from FftStream::work.  Outside the claim.
    for cap in (2, 3):
        for si, s in enumerate(S3[cap]):
            hs.append(Harness(f"c10_f2c_c{cap}_s{si}", f"crate::c10::float_to_complex(2, {cap}, {rs3(s)}, 5)", unwind=12,
                              unit="FloatToComplex::work", timeout=900, shape={"block": "f2c", "cap": cap, "schedule": s}, core=(cap == 2 and si == 0)))
            hs.append(Harness(f"c10_tee_c{cap}_s{si}", f"crate::c10::tee(3, {cap}, {rs3(s)}, 6)", unwind=12,
                              unit="Tee::work", timeout=900, shape={"block": "tee", "cap": cap, "schedule": s}, core=(cap == 2)))
    return hs


def harnesses(tier, seed):
    return select(all_harnesses(), tier, seed, 6, budget=1500)
