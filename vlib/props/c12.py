"""C12: blocks carry tags forward exactly once, at the corresponding output sample."""
from vlib.engine import Harness, select, fold
from vlib.props.c08 import schedules, rs_sched, sname
from vlib.props.c10 import S3, rs3

INFO = {
    "rule": "C08 delivery schedules with 1-2 tagged input samples: tag positions enumerated (first, last, middle, two on one sample, the sample "
            "just not consumed in a partial call), tag key/value symbolic. Output tags are converted to absolute indices; delivered multiset must "
            "equal the expected multiset (identity, minus skip, plus delay, first input only, added tags of correlator / burst tagger / vector "
            "source / vec-to-stream) for the one-shot and the scheduled delivery.",
    "bounds": "input length 3..4, capacity 2..3, <=2 input tags, schedules of <=3 steps + flush.",
    "outside": "FirFilter index/deci mapping (planned with C11), Hilbert, FftFilter (rayon / rustfft not encodable); more than 2 tags per window "
               "(sort stand-in handles any count, ring bound per C02).",
    "stubs": ["heap ring + stand-ins (C01)", "tag String -> 23-byte KString", "std::fmt::format -> empty"],
    "assumptions": ["Kani/CBMC soundness", "tag identity = (key length, key checksum, value kind, value)"],
}
TP = {3: [[0], [2], [1], [1, 1], [0, 2]], 4: [[0], [3], [1], [2, 2], [1, 2]]}


def rl(xs):
    return "&[" + ", ".join(map(str, xs)) + "]"


def all_harnesses():
    hs = []
    def add(name, call, unit, shape, core):
        hs.append(Harness(name, call, unwind=28, unit=unit, shape=shape, core=core, timeout=1200))
    for cap in (2, 3):
        for si, s in enumerate(schedules(cap, False)):
            for ti, tp in enumerate(TP[4]):
                add(f"c12_sync_c{cap}_{sname(s)}_t{ti}", f"crate::c12::sync_identity(4, {cap}, {rs_sched(s)}, 7, {rl(tp)})",
                    "sync macro work() tag propagation", {"block": "XorConst", "cap": cap, "schedule": s, "tags": tp}, cap == 2 and si in (1, 2) and ti in (1, 3))
                for sk in (0, 1, 2):
                    add(f"c12_skip{sk}_c{cap}_{sname(s)}_t{ti}", f"crate::c12::skip(4, {cap}, {rs_sched(s)}, 7, {sk}, {rl(tp)})",
                        "Skip::work tag propagation", {"block": "Skip", "skip": sk, "cap": cap, "schedule": s, "tags": tp},
                        cap == 2 and si in (1, 2) and ti in (1, 4) and sk in (0, 1))
                for bi, (bits, code) in enumerate((([1, 0, 1, 0], [1, 0]), ([0, 0, 1, 1], [0, 1]), ([1, 1, 1, 1], [1, 1]))):
                    add(f"c12_cac_c{cap}_{sname(s)}_t{ti}_b{bi}", f"crate::c12::cac_tag(4, {cap}, {rs_sched(s)}, 7, 2, 0, {rl(tp)}, {rl(bits)}, {rl(code)})",
                        "CorrelateAccessCodeTag::work", {"block": "CorrelateAccessCodeTag", "cap": cap, "schedule": s, "tags": tp, "bits": bits, "code": code},
                        cap == 2 and si == 2 and ti == 1 and bi == 0)
            for ti, tp in enumerate(TP[3]):
                for d in (0, 1, 2):
                    add(f"c12_delay{d}_c{cap}_{sname(s)}_t{ti}", f"crate::c12::delay(3, {cap}, {rs_sched(s)}, 8, {d}, {rl(tp)})",
                        "Delay::work tag propagation", {"block": "Delay", "delay": d, "cap": cap, "schedule": s, "tags": tp},
                        cap == 2 and si in (0, 2) and ti in (1, 4) and d in (0, 1))
        for si, s in enumerate(S3[cap]):
            for ti, tp in enumerate(TP[3]):
                add(f"c12_tee_c{cap}_s{si}_t{ti}", f"crate::c12::tee(3, {cap}, {rs3(s)}, 6, {rl(tp)})", "Tee tag propagation",
                    {"block": "Tee", "cap": cap, "schedule": s, "tags": tp}, cap == 2 and si == 0 and ti in (1, 3))
                add(f"c12_xor2_c{cap}_s{si}_t{ti}", f"crate::c12::two_in_first(3, {cap}, {rs3(s)}, 6, {rl(tp)}, &[1])", "Xor (2 inputs) tag propagation",
                    {"block": "Xor", "cap": cap, "schedule": s, "tags": tp}, cap == 2 and si == 0 and ti == 4)
                for ai, ab in enumerate(((False, True, False), (True, True, False), (False, False, True), (True, False, True))):
                    add(f"c12_burst_c{cap}_s{si}_t{ti}_a{ai}", f"crate::c12::burst_tagger(3, {cap}, {rs3(s)}, 6, {rl(tp)}, &[{', '.join(str(x).lower() for x in ab)}])",
                        "BurstTagger::work", {"block": "BurstTagger", "cap": cap, "schedule": s, "tags": tp, "above_threshold": list(ab)},
                        False)
    for cap in (3, 4):
        for (d0, d1) in ((2, 1), (2, 0), (1, 0)):
            for fi, fd in enumerate(([(cap, cap)], [(1, cap), (1, cap), (1, cap)], [(2, 0), (1, 1)])):
                for ti, tp in enumerate(([1], [2], [3], [2, 3], [0, 3])):
                    add(f"c12_delayshort_{d0}{d1}_c{cap}_f{fi}_t{ti}", f"crate::c12::delay_shorten(2, 3, {d0}, {d1}, {cap}, {rs_sched(fd)}, {rl(tp)})",
                        "Delay::work after set_delay", {"block": "Delay", "d0": d0, "d1": d1, "cap": cap, "feeds": fd, "tags": tp},
                        cap == 4 and (d0, d1) == (2, 1) and fi == 0 and ti in (1, 3))
    for cap in (1, 2):
        for ln in (1, 2, 3):
            for rep in (1, 2, 3):
                total = ln * rep
                for di, dr in enumerate(([cap] * (total + 2), [1] * (total + 2 + total // cap))):
                    add(f"c12_vsrc_c{cap}_l{ln}_r{rep}_d{di}", f"crate::c12::vector_source({ln}, {rep}, {cap}, {rl(dr)})", "VectorSource::work tags",
                        {"block": "VectorSource", "cap": cap, "len": ln, "repeat": rep, "drains": dr}, cap == 2 and ln == 3 and rep == 2 and di == 0)
    for cap in (2, 3):
        for (l1, l2) in ((1, 2), (2, 2), (cap, 1)):
            for di, dr in enumerate(([cap] * 4, [1] * 6)):
                add(f"c12_v2s_c{cap}_{l1}_{l2}_d{di}", f"crate::c12::vec_to_stream({l1}, {l2}, {cap}, {rl(dr)})", "VecToStream::work tags",
                    {"block": "VecToStream", "cap": cap, "l1": l1, "l2": l2, "drains": dr}, cap == 2 and di == 0 and l1 == 1)
    return hs


def harnesses(tier, seed):
    return select(all_harnesses(), tier, seed, 6)
