"""C17 (program side): file sink open modes and write-before-consume ordering."""
from vlib.engine import Harness, select

OSTUBS = [("std::fs::OpenOptions::read", "crate::c17::read_stub"), ("std::fs::OpenOptions::write", "crate::c17::write_stub"),
          ("std::fs::OpenOptions::append", "crate::c17::append_stub"), ("std::fs::OpenOptions::create", "crate::c17::create_stub"),
          ("std::fs::OpenOptions::create_new", "crate::c17::create_new_stub"), ("std::fs::OpenOptions::truncate", "crate::c17::truncate_stub"),
          ("std::fs::OpenOptions::_open", "crate::c17::open_stub")]
WSTUBS = OSTUBS + [("<std::fs::File as std::io::Write>::write", "crate::c17::file_write_stub"),
                   ("<std::fs::File as std::io::Write>::flush", "crate::c17::file_flush_stub")]

INFO = {
    "rule": "(a) per Mode and sink type: the OpenOptions setters are Kani-stubbed to record their arguments, OpenOptions::_open returns a dummy File; "
            "the recorded flag set must be the one the doc comment of the mode requires. (b) FileSink<u32>::work with File::write stubbed over a ghost "
            "byte log: per call an enumerated number of bytes is accepted (short writes) or the call fails (symbolic); the stream-activity hook observes the consume; "
            "window length enumerated, samples symbolic.",
    "bounds": "modes {Create, Overwrite, Append} x {FileSink<u8>, NoCopyFileSink<String>}; write-before-consume: only the empty window is decided - with one "
              "or more samples CBMC exhausts 14 GB / 420-1800 s (BufWriter's 8 KiB buffer), so that half of the property is NOT established.",
    "outside": "every statement about actual files, directories, permissions, SIGKILL, page cache and power loss (POSIX open(2)/write(2) semantics are "
               "assumed: bytes accepted by write(2) survive the death of the process); NoCopyFileSink's pop-then-write order (a packet popped before a "
               "failing write is lost; noted, not asserted).",
    "stubs": ["std::fs::OpenOptions::{read,write,append,create,create_new,truncate,_open}", "<File as Write>::{write,flush}", "heap ring + stand-ins (C01)",
              "std::fmt::format -> empty"],
    "assumptions": ["Kani/CBMC soundness", "POSIX open/write semantics", "BufWriter is real code, File is a stub"],
}


def all_harnesses():
    hs = []
    for nc in (False, True):
        for m, nm in ((0, "create"), (1, "overwrite"), (2, "append")):
            hs.append(Harness(f"c17_mode_{nm}_{'nc' if nc else 'stream'}", f"crate::c17::mode_flags({m}, {str(nc).lower()})", unwind=12,
                              unit=("NoCopyFileSink::new" if nc else "FileSink::new"), stubs=OSTUBS,
                              shape={"mode": nm, "sink": "NoCopyFileSink" if nc else "FileSink"}, core=True, timeout=900, replay="kani"))
    for n in (0, 1, 2):
        for ci, ch in enumerate(([64], [1, 64], [3, 2, 64], [4, 4])):
            if n == 0 and ci > 0:
                continue
            hs.append(Harness(f"c17_wbc_{n}_c{ci}", f"crate::c17::write_before_consume({n}, &[{', '.join(map(str, ch))}])", unwind=18, unit="FileSink::work",
                              stubs=WSTUBS, shape={"window": n, "bytes_accepted_per_write": ch}, core=(n == 0), timeout=1800, replay="kani"))
    return hs


def harnesses(tier, seed):
    return select(all_harnesses(), tier, seed, 2)
