"""C02: stream tags reach the reader exactly once, on the sample they were attached to."""
from vlib.engine import select, fold
from vlib.props.ringcommon import multisets, pre_states
from vlib.props import c01

INFO = dict(c01.INFO)
INFO.update({
    "rule": "Step instances as C01 plus tag placement: every multiset of 0..2 tags over the buffered offsets in the pre-state, every "
            "multiset of 0..2 tags over the committed positions; tag keys/values/kinds symbolic.",
    "bounds": "capacity 2..3, <=2 stored and <=2 committed tags per step, one operation from every valid tagged pre-state "
              "(tags only on buffered samples).",
    "outside": "more than 2 tags per pre-state/commit; capacities >3; tag strings longer than 23 bytes (KString stand-in); String/Float tag values.",
})


def all_harnesses():
    hs = []
    for cap in (2, 3):
        for (r, u) in pre_states(cap):
            for pt in multisets(u, 2):
                # consumes
                for m in range(0, u + 1):
                    if not pt:
                        continue  # untagged consumes are C01
                    core = (cap == 2 and (m == 0 or m == u or len(pt) == 2)) or (cap == 3 and r == 2 and u == 3 and len(pt) == 1 and m in (0, 1))
                    hs.append(c01.step("u8", cap, r, u, "consume", m, core, pre_tags=pt, prop="c02"))
                # produces
                for n in range(1, cap - u + 1):
                    for ct in multisets(n, 2):
                        if not pt and not ct:
                            continue
                        if len(pt) + len(ct) > 3:
                            continue
                        core = (cap == 2 and len(pt) <= 1 and (len(ct) >= 1)) or (cap == 3 and r == 2 and u == 1 and n == 2 and len(ct) == 1 and len(pt) <= 1)
                        hs.append(c01.step("u8", cap, r, u, "produce", n, core, pre_tags=pt, ctags=ct, prop="c02"))
    # tagged histories (public API only): commit with a tag, wrap, consume 0, ...
    OPN = c01.OPN
    tagged = [
        (2, [("produce", 1, 0), ("consume", 1, None), ("produce", 2, 1), ("consume", 0, None)]),
        (2, [("produce", 2, 1), ("consume", 1, None), ("produce", 1, 0), ("consume", 1, None)]),
        (3, [("produce", 2, 1), ("consume", 2, None), ("produce", 3, 2), ("consume", 0, None), ("consume", 2, None)]),
        (3, [("produce", 3, 0), ("consume", 0, None), ("consume", 1, None), ("produce", 1, 0)]),
    ]
    from vlib.engine import Harness
    for i, (cap, sc) in enumerate(tagged):
        body = ", ".join(f"({OPN[o]}, {n}, {'usize::MAX' if t is None else t})" for o, n, t in sc)
        hs.append(Harness(f"c02_hist_{i}_c{cap}", f"crate::ring::history::<u8>({cap}, &[{body}])", unwind=cap + 5,
                          unit="Buffer history", shape={"cap": cap, "script": str(sc)}, timeout=900, core=(i < 2)))
    return hs


def harnesses(tier, seed):
    return fold(select(all_harnesses(), tier, seed, 12), 4)
