"""C06: single-threaded runner returns only at quiescence, with the reference result."""
import itertools
from vlib.engine import Harness, select, fold

GSTUBS = [("std::time::Instant::now", "crate::c06::now_stub"),
          ("std::time::Instant::elapsed", "crate::c06::elapsed_stub"),
          ("rustradio::graph::get_cpu_time", "crate::c06::cpu_stub"),
          ("std::thread::sleep", "crate::c06::sleep_stub"),
          ("<rustradio::graph::Graph as rustradio::graph::GraphRunner>::generate_stats", "crate::c06::stats_stub")]

INFO = {
    "rule": "Graph shape, EVERY permutation of the add order, source length and stream capacity enumerated; source data and block constants symbolic. "
            "Oracles: run() returns Ok inside the unwinding bound; every sink holds exactly the reference sequence; a second run() moves no data "
            "and no stream holds a backlog.",
    "bounds": "shapes {src->sink, src->xor->sink, src->xor->xor->sink, src->tee->2 sinks, src->resampler(1/2 | 2/1)->sink}; all add orders; "
              "source length 0..2*cap+1; capacity 1..2 samples.",
    "outside": "larger graphs, other blocks, infinite sources (only via C07), longer data; MTGraph (C05 n/a). Sinks are harness-defined sample-only "
               "sinks with VectorSink's verdict behaviour (VectorSink's tag storage costs CBMC > 25 min per run).",
    "stubs": ["Instant::now/elapsed, graph::get_cpu_time, thread::sleep, Graph::generate_stats, std::fmt::format (results never influence scheduling)",
              "heap ring + sync/map/sort stand-ins (C01)"],
    "assumptions": ["Kani/CBMC soundness", "reference results computed in the harness from the block documentation"],
}
SHAPES = {"direct": (0, 2), "xor": (1, 3), "tee": (2, 4), "down": (3, 3), "up": (4, 3), "xorxor": (5, 4)}
CONST = {0: "G_DIRECT", 1: "G_XOR", 2: "G_TEE", 3: "G_RESAMP_DOWN", 4: "G_RESAMP_UP", 5: "G_XOR_XOR"}
# blocks are pushed in data-flow order, so the identity permutation is topological;
# for the tee (src, tee, sink1, sink2) both sink orders are topological.


def is_topological(key, perm):
    if key == "tee":
        return perm[0] == 0 and perm[1] == 1
    return list(perm) == sorted(perm)


def all_harnesses():
    hs = []
    for key, (sid, nb) in SHAPES.items():
        for cap in (1, 2):
            lens = range(0, 2 * cap + 2)
            if key in ("tee", "xorxor"):
                lens = (0, 1, cap + 1, 2 * cap + 1)
            for ln in lens:
                for perm in itertools.permutations(range(nb)):
                    topo = is_topological(key, perm)
                    wam = key in ("down", "up")
                    rev = list(perm) == list(range(nb))[::-1]
                    core = cap == 2 and ((topo and key in ("direct", "xor", "xorxor") and ln in (0, 1, 3)) or
                                         (rev and key in ("direct", "xor") and ln == 1) or
                                         (topo and key == "up" and ln in (1, 3)) or (topo and key == "down" and ln == 1) or
                                         (topo and key == "tee" and ln == 3 and perm[2] == 2))
                    passes = (ln + 2) * 2 + nb + 2
                    hs.append(Harness(f"c06_{key}_c{cap}_l{ln}_o{''.join(map(str, perm))}",
                                      f"crate::c06::run_graph(crate::c06::{CONST[sid]}, &[{', '.join(map(str, perm))}], {ln}, {cap})",
                                      unwind=max(passes, 28), unit="Graph::run", stubs=GSTUBS, timeout=1500,
                                      shape={"graph": key, "cap": cap, "len": ln, "order": list(perm), "topological_order": topo,
                                             "has_wait_after_move_block": wam}, core=core))
    return hs


def harnesses(tier, seed):
    return select(all_harnesses(), tier, seed, 6)
