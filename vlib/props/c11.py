"""C11 (partial): DSP kernels agree with their mathematical definitions."""
from vlib.engine import Harness, select, fold
from vlib.props.c08 import rs_sched, sname

INFO = {
    "rule": "Tap count, decimation, input length, capacity and delivery schedule enumerated; taps and samples symbolic over a wrapping 16-bit "
            "integer type (the kernels are generic over Copy+Default+Mul+Add, so this is the same source instantiated at another type - stated). "
            "f32 only bit-exact against the same expression tree.",
    "bounds": "FIR: 1..3 taps, decimation 1..3, input <= 6; FirFilter block chunked vs one-shot with capacity ntaps+deci-1..+1; IIR: 1..3 taps, 4 samples; "
              "Fir<f32>::filter <= 2 taps; calc_fft_size for every from <= 2^20.",
    "outside": "FFT/overlap-add equivalence (rustfft), FftFilterFloat, AVX and portable-SIMD kernels (intrinsics; not compiled in the Kani build), Hilbert "
               "(rayon + floats), QuadratureDemod/FastFM (atan2), tap design and windows (sin/cos), every 'within rounding bounds' statement.",
    "stubs": ["heap ring + stand-ins (C01)", "std::fmt::format -> empty"],
    "assumptions": ["Kani/CBMC soundness", "wrapping-i16 instantiation stands for the generic kernel; floats are not replaced by reals anywhere"],
}


def all_harnesses():
    hs = []
    for nt in (1, 2, 3):
        for deci in (1, 2, 3):
            for n in (nt, nt + 1, 6):
                hs.append(Harness(f"c11_fir_k{nt}_d{deci}_n{n}", f"crate::c11::fir_kernel({nt}, {n}, {deci})", unwind=12, unit="Fir kernel",
                                  shape={"taps": nt, "deci": deci, "n": n}, core=(n == 6 and nt in (2, 3) and deci in (1, 2)), timeout=900))
    for nt in (1, 2, 3):
        for deci in (1, 2, 3):
            base = nt + deci - 1
            for cap in (base, base + 1):
                if cap < 2:
                    continue
                for si, s in enumerate(([(1, cap)] * 3, [(cap, 0), (cap, 0), (cap, 1)], [(cap, 0), (1, 1), (cap, 1)])):
                    L = 6
                    hs.append(Harness(f"c11_firblock_k{nt}_d{deci}_c{cap}_{sname(s)}",
                                      f"crate::c11::fir_block({nt}, {deci}, {L}, {cap}, {rs_sched(s)}, {L + 4})", unwind=16, unit="FirFilter::work",
                                      shape={"taps": nt, "deci": deci, "L": L, "cap": cap, "schedule": s}, timeout=1500,
                                      core=(nt == 2 and deci in (1, 2) and cap == base + 1 and si in (1, 2))))
    for nt in (1, 2, 3):
        hs.append(Harness(f"c11_iir_{nt}", f"crate::c11::iir({nt}, 4)", unwind=12, unit="IirFilter::filter", shape={"taps": nt, "n": 4}, core=True, timeout=900))
        hs.append(Harness(f"c11_iirfill_{nt}", f"crate::c11::iir_fill({nt})", unwind=12, unit="IirFilter::fill", shape={"taps": nt}, core=(nt == 3), timeout=900))
    for nt in (1, 2):
        hs.append(Harness(f"c11_firf32_{nt}", f"crate::c11::fir_f32({nt})", unwind=8, unit="Fir<f32>::filter", shape={"taps": nt}, core=True, timeout=1500))
    hs.append(Harness("c11_fftsize", "crate::c11::fft_size()", unwind=24, unit="calc_fft_size", shape={"from": "<= 2^20 (symbolic)"}, core=True, timeout=900))
    return hs


def harnesses(tier, seed):
    hs = all_harnesses()
    for h in hs:
        h.priority = h.core and h.name.startswith('c11_firblock_k2_d1_c3_f3d0_f3d0')
    return select(hs, tier, seed, 4)
