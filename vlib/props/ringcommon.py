"""Shape enumeration shared by C01/C02/C03 (real ring vs FIFO specification)."""
import itertools

TYPES = {
    "u8": ("u8", 1), "u16": ("u16", 2), "u32": ("u32", 4),
    "c64": ("rustradio::Complex", 8), "b16": ("[u8; 16]", 16),
}


def rs_list(xs):
    return "&[" + ", ".join(str(x) for x in xs) + "]"


def multisets(n, kmax):
    """all multisets of size 0..kmax over range(n), as sorted tuples"""
    out = [()]
    for k in range(1, kmax + 1):
        out += list(itertools.combinations_with_replacement(range(n), k))
    return out


def pre_states(cap):
    return [(r, u) for r in range(cap) for u in range(cap + 1)]
