"""C16: finite sources emit their data exactly `repeat` times, then EOF (partial)."""
from vlib.engine import Harness, select

INFO = {
    "rule": "Repeat algebra: call-sequence length and constructor enumerated, the u64 state and every op "
            "choice symbolic. VectorSource: data length, repeat mode, stream capacity and consumption "
            "schedule enumerated, sample values symbolic.",
    "bounds": "Repeat: all u64 initial counts, all op sequences (again/done/count) of length <= 3. VectorSource<u8>: data length 0..2*cap+1, "
              "repeat in {0,1,2,3,infinite}, capacity 1..2, three consumption schedules per shape; emission count, EOF point, per-repetition tags.",
    "outside": "FileSource and SigMFSource (file I/O); call sequences longer than 3 (count overflow needs 2^64 calls).",
    "stubs": ["std::fmt::format -> empty String"],
    "assumptions": ["Kani/CBMC soundness", "dev profile (overflow checks on, as in release for this crate)"],
}


def all_harnesses():
    hs = []
    for inf in (False, True):
        for ln in (1, 2, 3):
            hs.append(Harness(f"c16_repeat_{'inf' if inf else 'fin'}_{ln}",
                              f"crate::c16::repeat_algebra({str(inf).lower()}, {ln})", ln + 2,
                              unit="Repeat", shape={"infinite": inf, "len": ln}, core=True))
    return hs


def rl(xs):
    return "&[" + ", ".join(map(str, xs)) + "]"


def vsrc_harnesses():
    hs = []
    for cap in (1, 2):
        for ln in range(0, 2 * cap + 2):
            for rep in (0, 1, 2, 3):
                total = ln * rep
                if total > 12:
                    continue
                n_calls = total // cap + rep + 3
                for di, dr in enumerate(([cap] * n_calls, [1] * (total + rep + 3), [0, 0] + [cap] * n_calls)):
                    if total >= 5 and di == 1:
                        continue  # one sample per call over 5+ samples exhausts 14 GB
                    core = cap == 2 and (((ln, rep) in ((3, 2), (5, 1), (2, 0), (0, 2), (1, 3)) and di in (0, 1)) or ((ln, rep) == (2, 2) and di == 2))
                    hs.append(Harness(f"c16_vsrc_c{cap}_l{ln}_r{rep}_d{di}", f"crate::c12::vector_source({ln}, {rep}, {cap}, {rl(dr)})",
                                      unwind=28, unit="VectorSource::work", timeout=1200,
                                      shape={"cap": cap, "len": ln, "repeat": rep, "drains": dr}, core=core))
    for cap in (1, 2):
        for ln in (1, 2, 3):
            for di, dr in enumerate(([cap] * 5, [1, 0, 1, cap, 1, 1])):
                hs.append(Harness(f"c16_vsrc_inf_c{cap}_l{ln}_d{di}", f"crate::c09::vector_source({ln}, {cap}, {rl(dr)}, true)", unwind=28,
                                  unit="VectorSource::work (infinite)", shape={"cap": cap, "len": ln, "repeat": "infinite", "drains": dr},
                                  core=(cap == 2 and ln == 2), timeout=900))
    return hs


def harnesses(tier, seed):
    return select(all_harnesses() + vsrc_harnesses(), tier, seed, 4)
