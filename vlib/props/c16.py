"""C16: finite sources emit their data exactly `repeat` times, then EOF (partial)."""
from vlib.engine import Harness, select

INFO = {
    "rule": "Repeat algebra: call-sequence length and constructor enumerated, the u64 state and every op "
            "choice symbolic. VectorSource: data length, repeat mode, stream capacity and consumption "
            "schedule enumerated, sample values symbolic.",
    "bounds": "Repeat: all u64 initial counts, all op sequences (again/done/count) of length <= 3. ",
    "outside": "FileSource and SigMFSource (file I/O); call sequences longer than 3 (count overflow needs 2^64 calls).",
    "stubs": ["std::fmt::format -> empty String"],
    "assumptions": ["Kani/CBMC soundness", "dev profile (overflow checks on, as in release for this crate)"],
}


def all_harnesses():
    hs = []
    for inf in (False, True):
        for ln in (1, 2, 3):
            hs.append(Harness(f"c16_repeat_{'inf' if inf else 'fin'}_{ln}",
                              f"crate::c16::repeat_algebra({str(inf).lower()}, {ln})", ln + 2,
                              unit="Repeat", shape={"infinite": inf, "len": ln}, core=True))
    return hs


def harnesses(tier, seed):
    return select(all_harnesses(), tier, seed, 0)
