"""C04: end-of-stream decisions never lose committed data and always arrive."""
from vlib.engine import Harness, select, fold

INFO = {
    "rule": "One decision call (wait/eof/closed) of the real stream.rs per instance; capacity, initially buffered amount, need, the peer's "
            "commit size and how far the peer's script [commit/push, drop] has advanced before the call are enumerated; the peer's "
            "remaining moves at every lock/unlock scheduling point during the call are symbolic (the schedule is a solver variable).",
    "bounds": "sample streams: capacity 1..2, need 1..cap+1; packet streams: 0..2 queued, need 1..3; peer script of <=2 steps; one decision call.",
    "outside": "runner loops acting on the verdict (C05/C06); weak-memory effects on Arc::strong_count; more than one peer; waits longer than one timeout round.",
    "stubs": ["std Mutex/Condvar -> cooperative stand-ins whose lock()/unlock are scheduling points; wait_timeout_while = release, yield, re-acquire, report condition",
              "heap ring stand-in", "std::fmt::format -> empty"],
    "assumptions": ["a std Mutex critical section is atomic and establishes happens-before", "peer steps are atomic ring operations (C03)",
                    "Kani executes atomics sequentially consistent"],
}
D = {"wait": "crate::c04::D_WAIT", "eof": "crate::c04::D_EOF", "closed": "crate::c04::D_CLOSED"}
UNIT = {("r", "wait"): "ReadStream::wait_for_read", ("r", "eof"): "ReadStream::eof", ("r", "closed"): "ReadStream::closed",
        ("w", "wait"): "WriteStream::wait_for_write", ("w", "closed"): "WriteStream::closed",
        ("nr", "wait"): "NCReadStream::wait", ("nr", "eof"): "NCReadStream::eof", ("nr", "closed"): "NCReadStream::closed",
        ("nw", "wait"): "NCWriteStream::wait", ("nw", "closed"): "NCWriteStream::closed"}


def all_harnesses():
    hs = []
    for cap in (1, 2):
      for off in range(cap):
        for init in range(cap + 1):
            for k in range(cap - init + 1):
                for pre in (0, 1, 2):
                    for dec in ("wait", "eof", "closed"):
                        needs = range(1, cap + 2) if dec == "wait" else (1,)
                        for need in needs:
                            core = cap == 2 and off == 1 and pre == 0 and ((dec == "wait" and need == 1 and init == 0 and k == 1) or
                                                              (dec == "wait" and need == 2 and init == 1 and k == 1) or
                                                              (dec == "eof" and init == 0 and k == 1) or
                                                              (dec == "closed" and init == 0 and k == 0))
                            core = core or (cap == 2 and off == 1 and pre == 2 and init + k == 1 and dec != "closed" and need <= 2 and k == 1)
                            # full ring / data straddling the wrap point with the writer gone
                            core = core or (cap == 2 and off == 1 and pre == 2 and init == 2 and k == 0 and dec in ("eof", "wait") and need in (1, 2))
                            hs.append(Harness(f"c04_r_{dec}_c{cap}_o{off}_i{init}_n{need}_k{k}_p{pre}",
                                              f"crate::c04::reader_decision({cap}, {off}, {init}, {need}, {k}, {D[dec]}, {pre})",
                                              unwind=cap + 4, unit=UNIT[("r", dec)], timeout=900,
                                              shape={"side": "reader", "decision": dec, "cap": cap, "offset": off, "initial": init, "need": need,
                                                     "peer_commit": k, "peer_pre_step": pre}, core=core))
    for cap in (1, 2):
        for init in range(cap + 1):
            for m in range(init + 1):
                for pre in (0, 1, 2):
                    for dec in ("wait", "closed"):
                        needs = range(1, cap + 2) if dec == "wait" else (1,)
                        for need in needs:
                            core = cap == 2 and init == 2 and m == 1 and need == 1 and pre in (0, 2)
                            h = Harness(f"c04_w_{dec}_c{cap}_i{init}_n{need}_m{m}_p{pre}",
                                        f"crate::c04::writer_decision({cap}, {cap - 1}, {init}, {need}, {m}, {D[dec]}, {pre})",
                                        unwind=cap + 4, unit=UNIT[("w", dec)], timeout=900,
                                        shape={"side": "writer", "decision": dec, "cap": cap, "initial": init, "need": need,
                                               "peer_consume": m, "peer_pre_step": pre}, core=core)
                            h.foldable = False  # a peer consume inside one query already needs ~5 GB
                            h.heavy = (m >= 1 and pre < 2 and dec == "wait")
                            hs.append(h)
    for init in (0, 1, 2):
        for push in (False, True):
            for pre in (0, 1, 2):
                for dec in ("wait", "eof", "closed"):
                    needs = (1, 2, 3) if dec == "wait" else (1,)
                    for need in needs:
                        core = init == 0 and push and pre in (0, 2) and need == 1
                        hs.append(Harness(f"c04_nr_{dec}_i{init}_n{need}_{'push' if push else 'nopush'}_p{pre}",
                                          f"crate::c04::nc_reader_decision({init}, {need}, {str(push).lower()}, {D[dec]}, {pre})",
                                          unwind=6, unit=UNIT[("nr", dec)], timeout=900,
                                          shape={"side": "packet reader", "decision": dec, "initial": init, "need": need,
                                                 "peer_push": push, "peer_pre_step": pre}, core=core))
    for gone in (False, True):
        for dec in ("wait", "closed"):
            hs.append(Harness(f"c04_nw_{dec}_{'gone' if gone else 'alive'}",
                              f"crate::c04::nc_writer_decision({str(gone).lower()}, {D[dec]})", unwind=4,
                              unit=UNIT[("nw", dec)], shape={"side": "packet writer", "decision": dec, "reader_gone": gone}, core=True))
    return hs


def harnesses(tier, seed):
    hs = select(all_harnesses(), tier, seed, 14)
    if tier == "thorough":
        # a wait with a peer commit still to come costs 100-260 s and 3-5 GB on its own; three of
        # them in one query were killed / timed out in the thorough run, so they are not packed
        for h in hs:
            sh = h.shape
            if sh.get("side") == "reader" and sh.get("decision") == "wait" and sh.get("peer_commit", 0) >= 1 and sh.get("peer_pre_step") < 2:
                h.foldable = False
    return fold(hs, 3)
