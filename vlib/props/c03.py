"""C03: one producer thread and one consumer thread can share a stream safely (reduction)."""
from vlib.engine import Harness, select, fold
from vlib.props.ringcommon import pre_states
from vlib.props import c01

INFO = dict(c01.INFO)
INFO.update({
    "rule": "(a) atomic_op: every ring operation from every valid pre-state with a peer of the other side allowed one enabled operation "
            "(symbolic choice, symbolic sample) at the scheduling point before the critical section and one after it; result must be the "
            "spec step at the lock point, exactly one critical section, final state = spec after (peer-before, op, peer-after). "
            "(b) live_windows: a live write window, a consume and a new live read window from every pre-state: index sets disjoint modulo "
            "capacity; read window content unchanged by the writer filling and committing. (c) ceiling: a third window on one stream is refused.",
    "bounds": "capacity 2..3 (u8), one observed operation, peer <= 1 op before and <= 1 op after the critical section, one live window per side.",
    "outside": "real OS threads and weak memory (Kani has no threads: cooperative interleaving at every lock/unlock of the stand-in mutex; the "
               "reduction 'every real interleaving is a sequence of these atomic steps' trusts std::sync::Mutex); >1 live window per side; cap>3.",
})
A = {"free": "crate::ring::A_FREE", "read_buf": "crate::ring::A_READ_BUF", "write_buf": "crate::ring::A_WRITE_BUF",
     "consume": "crate::ring::A_CONSUME", "produce": "crate::ring::A_PRODUCE"}


def all_harnesses():
    hs = []
    for cap in (2, 3):
        for (r, u) in pre_states(cap):
            ops = [("free", 0), ("read_buf", 0), ("write_buf", 0)]
            ops += [("consume", m) for m in range(0, u + 1)]
            ops += [("produce", n) for n in range(1, cap - u + 1)]
            for op, n in ops:
                core = cap == 2 and r == 1 and (n in (0, 1))
                hs.append(Harness(f"c03_atomic_c{cap}_r{r}_u{u}_{op}{n}",
                                  f"crate::ring::atomic_op::<u8>({cap}, {r}, {u}, {A[op]}, {n})", unwind=cap + 4,
                                  unit=f"Buffer::{op} atomicity", timeout=900,
                                  shape={"cap": cap, "rpos": r, "used": u, "op": op, "n": n}, core=core))
            for m in range(0, u + 1):
                for n in range(0, cap - u + 1):
                    core = (cap == 2 and (m == u or (r == 0 and n == cap - u and m == 0))) or (cap == 3 and m == u and u in (1, 2) and n == 1 and r in (0, 2))
                    hs.append(Harness(f"c03_win_c{cap}_r{r}_u{u}_m{m}_n{n}",
                                      f"crate::ring::live_windows::<u8>({cap}, {r}, {u}, {m}, {n})", unwind=cap + 4,
                                      unit="live windows", timeout=900,
                                      shape={"cap": cap, "rpos": r, "used": u, "consume": m, "commit": n}, core=core))
    for side in (True, False):
        hs.append(Harness(f"c03_ceiling_{'read' if side else 'write'}", f"crate::ring::ceiling({str(side).lower()})", unwind=5,
                          unit="window ceiling", expect="refuse", shape={"side": "read" if side else "write"}, core=True))
    return hs


def harnesses(tier, seed):
    return fold(select(all_harnesses(), tier, seed, 10), 3)
