"""C19: derive-generated blocks behave as documented for any stream arity."""
from vlib.engine import Harness, select, fold

INFO = {
    "rule": "Harness-defined #[derive(Block)] blocks (sync and sync_tag, with default/into fields, packet output) expanded by rustc; fill levels of "
            "every input and free space of every output enumerated (unequal levels), samples symbolic. Checked per work() call: steps = "
            "min(inputs, output spaces), one sample per input/output per step, per-wire values (distinct affine maps), verdict stream identity, "
            "constructor return order and wiring, generated eof().",
    "bounds": "arities (in x out): 2x1, 1x2, 1x3, 2x2, 1x(packet+sample) new-only; capacity 2..3; fill levels 0..cap.  The sync_tag instances (B11T) are "
              "enumerated but none finishes within 2400 s / 14 GB (Cow<[Tag]> + tags.to_vec() per sample), so sync_tag mode is NOT established.",
    "outside": "THREE inputs in sync mode: the macro's expansion does not type-check at this commit (nested zip tuples), so 3x1 cannot be instantiated "
               "(a compile-time refusal, noted in DESIGN.md, not a run-time violation); blocks with >3 streams.",
    "stubs": ["heap ring + stand-ins (C01)", "std::fmt::format -> empty"],
    "assumptions": ["Kani/CBMC soundness", "rustc's macro expansion is the real generated code"],
}


def all_harnesses():
    hs = []
    def add(name, call, unit, shape, core=False):
        hs.append(Harness(name, call, unwind=10, unit=unit, shape=shape, core=core, timeout=900))
    for cap in (2, 3):
        for p in (0, 1, cap):
            for d in range(0, p + 1):
                free = cap - p + d
                for fa in range(0, cap - (p) + 1):
                    for fb in range(0, cap - p + 1):
                        if fa == fb and fa not in (0, 1):
                            continue
                        core = cap == 2 and ((p, d, fa, fb) in ((0, 0, 2, 1), (2, 1, 0, 0), (1, 0, 1, 1), (0, 0, 0, 2), (2, 0, 0, 0), (1, 1, 1, 0)))
                        add(f"c19_b21_c{cap}_p{p}_d{d}_a{fa}_b{fb}", f"crate::c19::b21({cap}, {p}, {d}, {fa}, {fb})", "derive sync 2x1",
                            {"arity": "2x1", "cap": cap, "prefill": p, "drain": d, "fa": fa, "fb": fb}, core)
        for p in (0, 1, cap):
            for d1 in range(0, p + 1):
                for d2 in range(0, p + 1):
                    for f in (0, 1, cap - p):
                        if f > cap - p:
                            continue
                        core = cap == 2 and (p, d1, d2, f) in ((2, 1, 0, 0), (2, 2, 1, 0), (1, 0, 1, 1), (0, 0, 0, 2), (2, 0, 0, 0))
                        add(f"c19_b12_c{cap}_p{p}_d{d1}{d2}_f{f}", f"crate::c19::b12({cap}, {p}, {d1}, {d2}, {f})", "derive sync 1x2 (default+into fields)",
                            {"arity": "1x2", "cap": cap, "prefill": p, "drain": [d1, d2], "f": f}, core)
    for (p, d, f) in ((2, (2, 1, 0), 0), (2, (1, 2, 2), 0), (1, (0, 1, 0), 1), (0, (0, 0, 0), 2), (2, (2, 2, 2), 0)):
        add(f"c19_b13_p{p}_d{''.join(map(str, d))}_f{f}", f"crate::c19::b13(2, {p}, &[{d[0]}, {d[1]}, {d[2]}], {f})", "derive sync 1x3",
            {"arity": "1x3", "cap": 2, "prefill": p, "drain": list(d), "f": f}, core=True)
    for (p, d1, d2, fa, fb) in ((0, 0, 0, 2, 1), (2, 1, 2, 0, 0), (1, 0, 1, 1, 1), (2, 2, 2, 0, 0), (1, 1, 1, 0, 1), (0, 0, 0, 1, 2)):
        add(f"c19_b22_p{p}_d{d1}{d2}_a{fa}_b{fb}", f"crate::c19::b22(2, {p}, {d1}, {d2}, {fa}, {fb})", "derive sync 2x2",
            {"arity": "2x2", "cap": 2, "prefill": p, "drain": [d1, d2], "fa": fa, "fb": fb}, core=(p != 1))
    import itertools
    for cap in (2, 3):
        for f in range(1, cap + 1):
            for tp in range(0, f):
                for par in itertools.product((False, True), repeat=f):
                    pn = "".join("1" if x else "0" for x in par)
                    h = Harness(f"c19_b11t_c{cap}_f{f}_t{tp}_p{pn}", f"crate::c19::b11t({cap}, {f}, {tp}, &[{', '.join(str(x).lower() for x in par)}])",
                                unwind=12, unit="derive sync_tag 1x1",
                                shape={"arity": "1x1 sync_tag", "cap": cap, "f": f, "tagpos": tp, "odd": pn}, core=False, timeout=2400)
                    h.foldable = False
                    hs.append(h)
    for ga in (False, True):
        for gb in (False, True):
            for la in (0, 1):
                for lb in (0, 1):
                    add(f"c19_eof_{int(ga)}{int(gb)}_{la}{lb}", f"crate::c19::eof_b21({str(ga).lower()}, {str(gb).lower()}, {la}, {lb})",
                        "derive BlockEOF", {"gone": [ga, gb], "left": [la, lb]}, core=(ga and gb) or (la == 0 and lb == 0 and ga != gb))
    add("c19_bnc", "crate::c19::bnc()", "derive new() with packet output", {"arity": "1x(NC+sample)"}, core=True)
    return hs


def harnesses(tier, seed):
    return fold(select(all_harnesses(), tier, seed, 6), 3)
