"""C14: byte formats round-trip and survive arbitrary read segmentation (partial)."""
from vlib.engine import Harness, select, fold

INFO = {
    "rule": "Sample codecs: one instance per sample type, the value (every bit pattern incl. NaN payloads) symbolic. TcpSource: stream length, output "
            "capacity and call count enumerated; the bytes symbolic, the sizes of the read() results enumerated (<TcpStream as Read>::read is a Kani stub over a ghost stream).",
    "bounds": "Sample::{size,serialize,parse} for u8,u32,i32,f32,Complex: all values. TcpSource<u32>: 6..12 stream bytes, every split into read() "
              "results of 1..4 bytes (symbolic per call), output capacity 1..2 samples, 4..5 work() calls.",
    "outside": "FileSink/FileSource through real files, SigMF recordings and tar archives, BufReader behaviour (I/O, serde_json, tar: not encodable); "
               "String samples (documented TODO in the code).",
    "stubs": ["std::fmt::format -> empty"],
    "assumptions": ["Kani/CBMC soundness"],
}


def all_harnesses():
    hs = []
    for t in ("u8", "u32", "i32", "f32", "complex"):
        hs.append(Harness(f"c14_rt_{t}", f"crate::c14::rt_{t}()", unwind=12, unit=f"Sample for {t}", shape={"type": t}, core=True))
    for nd in (0, 2, 4):
        hs.append(Harness(f"c14_audecode_stream_{nd}", f"crate::c14::au_decode_stream({nd})", unwind=44, unit="AuDecode::work (whole stream)",
                          shape={"header": 28, "data_bytes": nd}, core=(nd == 2), timeout=1500))
    # AuDecode PCM data delivered in pieces (odd and even sizes): same samples as in one piece and as the PCM16 definition
    for nd in (4, 5):
        for si, sch in enumerate(([(3, 0), (2, 1), (3, 1)], [(1, 0), (1, 0), (3, 2)])):
            hs.append(Harness(f"c14_audata_n{nd}_s{si}", f"crate::c08::au_decode_data({nd}, 3, 2, &[{', '.join(f'({a}, {b})' for a, b in sch)}], {nd + 4})", unwind=14,
                              unit="AuDecode::work (data state, segmented)", shape={"data_bytes": nd, "cap_in": 3, "cap_out": 2, "schedule": sch},
                              core=(nd == 5 and si == 0), timeout=1200))
            hs[-1].priority = True
    import itertools
    TSTUB = [("<std::net::TcpStream as std::io::Read>::read", "crate::c14::tcp_read_stub")]
    for cap in (1, 2):
        for segs in itertools.product((1, 2, 3, 4), repeat=3):
            ln = min(sum(segs) + 1, 9)
            core = cap == 2 and segs in ((1, 4, 3), (3, 3, 3), (2, 1, 4), (4, 4, 1), (1, 1, 1))
            hs.append(Harness(f"c14_tcp_c{cap}_s{''.join(map(str, segs))}", f"crate::c14::tcp_source({ln}, {cap}, 4, &[{', '.join(map(str, segs))}], 15)",
                              unwind=14, unit="TcpSource::work", stubs=TSTUB,
                              shape={"bytes": ln, "cap": cap, "calls": 4, "segments": list(segs), "output_drained_before_calls": "all"}, core=core, timeout=1200, replay="kani"))
    # output full at some calls (downstream slower than the socket)
    for (segs, mask) in (((4, 4, 4), 0b000000), ((4, 4, 1), 0b100000), ((3, 1, 4), 0b000001), ((4, 3, 4), 0b010000)):
        hs.append(Harness(f"c14_tcp_full_s{''.join(map(str, segs))}_m{mask}", f"crate::c14::tcp_source(9, 1, 6, &[{', '.join(map(str, segs))}], {mask})",
                          unwind=14, unit="TcpSource::work", stubs=TSTUB,
                          shape={"bytes": 9, "cap": 1, "calls": 6, "segments": list(segs), "output_drained_before_calls": bin(mask)}, core=(mask in (0, 1)),
                          timeout=1200, replay="kani"))
    return hs


def harnesses(tier, seed):
    return select(all_harnesses(), tier, seed, 0)
