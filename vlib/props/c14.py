"""C14: byte formats round-trip and survive arbitrary read segmentation (partial)."""
from vlib.engine import Harness, select, fold

INFO = {
    "rule": "Sample codecs: one instance per sample type, the value (every bit pattern incl. NaN payloads) symbolic. ",
    "bounds": "Sample::{size,serialize,parse} for u8,u32,i32,f32,Complex: all values.",
    "outside": "FileSink/FileSource through real files, SigMF recordings and tar archives, BufReader behaviour (I/O, serde_json, tar: not encodable); "
               "String samples (documented TODO in the code).",
    "stubs": ["std::fmt::format -> empty"],
    "assumptions": ["Kani/CBMC soundness"],
}


def all_harnesses():
    hs = []
    for t in ("u8", "u32", "i32", "f32", "complex"):
        hs.append(Harness(f"c14_rt_{t}", f"crate::c14::rt_{t}()", unwind=12, unit=f"Sample for {t}", shape={"type": t}, core=True))
    return hs


def harnesses(tier, seed):
    return select(all_harnesses(), tier, seed, 0)
